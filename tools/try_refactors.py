#!/usr/bin/env python3
"""False-alarm probe: apply each behaviour-preserving change under /verif/refactors/<name>/patch.diff to /repo,
run EVERY check (quick tier) and require silence (exit 0), undo the change. Writes refactors/RESULTS.json."""
import json, os, subprocess, sys, time
ROOT = os.path.dirname(os.path.dirname(os.path.abspath(__file__)))
R = os.path.join(ROOT, "refactors")
ALL = ["C%02d" % i for i in range(1, 21)]

def sh(cmd, **kw):
    return subprocess.run(cmd, stdout=subprocess.PIPE, stderr=subprocess.STDOUT, text=True, **kw)

def main():
    names = [a for a in sys.argv[1:] if not a.startswith("--")] or sorted(d for d in os.listdir(R) if os.path.exists(os.path.join(R, d, "patch.diff")))
    if sh(["git", "-C", "/repo", "status", "--porcelain", "--untracked-files=no"]).stdout.strip():
        print("/repo not clean; refusing"); return 2
    rp = os.path.join(R, "RESULTS.json")
    results = json.load(open(rp)) if os.path.exists(rp) else {}
    for name in names:
        a = sh(["git", "-C", "/repo", "apply", os.path.join(R, name, "patch.diff")])
        if a.returncode != 0:
            print(name, "patch does not apply"); continue
        try:
            fired = {}
            for c in ALL:
                p = sh([os.path.join(ROOT, "check"), c, "--tier", "quick"], cwd=ROOT)
                if p.returncode != 0:
                    sigs = [l.split("signature:")[1].split("(occ")[0].strip() for l in p.stdout.splitlines() if "signature:" in l]
                    inc = [l for l in p.stdout.splitlines() if l.startswith("INCONCLUSIVE")]
                    fired[c] = {"exit": p.returncode, "signatures": sigs[:8], "inconclusive": inc[:4], "tail": p.stdout[-600:] if not sigs and not inc else ""}
            results[name] = {"alarms": fired}
            print("%-8s %s" % (name, "silent (all 20 checks exit 0)" if not fired else "ALARM: " + json.dumps({k: (v["signatures"] or v["inconclusive"] or v["tail"])[:2] for k, v in fired.items()})[:600]))
        finally:
            sh(["git", "-C", "/repo", "checkout", "--", "."])
        json.dump(results, open(rp, "w"), indent=1)
    sh([os.path.join(ROOT, "check"), "setup"], cwd=ROOT)
    return 0

if __name__ == "__main__":
    sys.exit(main())
