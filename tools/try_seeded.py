#!/usr/bin/env python3
"""Run checks against the seeded changes under /verif/seeded/<name>/patch.diff.

  tools/try_seeded.py [--all-checks] [--tier quick|thorough] [name ...]

For each seeded change: apply it to /repo (git apply), run the check of the property it breaks
(and with --all-checks every other check too), record which checks report a violation and with
which signatures, and undo the change straight afterwards (git checkout -- .). Results are
written to /verif/seeded/RESULTS.json and printed as a table. /repo must be clean beforehand.
"""
import json, os, subprocess, sys, time

ROOT = os.path.dirname(os.path.dirname(os.path.abspath(__file__)))
SEEDED = os.path.join(ROOT, "seeded")
ALL = ["C%02d" % i for i in range(1, 21)]


def sh(cmd, **kw):
    return subprocess.run(cmd, stdout=subprocess.PIPE, stderr=subprocess.STDOUT, text=True, **kw)


def repo_clean():
    return sh(["git", "-C", "/repo", "status", "--porcelain", "--untracked-files=no"]).stdout.strip() == ""


def run_check(pid, tier, profiles=None):
    t0 = time.time()
    env = dict(os.environ)
    if profiles:
        env["VERIF_PROFILES"] = profiles
    p = sh([os.path.join(ROOT, "check"), pid, "--tier", tier], cwd=ROOT, env=env)
    sigs = [l.split("signature:")[1].split("(occ")[0].strip() for l in p.stdout.splitlines() if "signature:" in l]
    return {"exit": p.returncode, "signatures": sigs[:12], "wall_s": round(time.time() - t0, 1),
            "tail": p.stdout.strip().splitlines()[-1] if p.stdout.strip() else ""}


def main():
    args = sys.argv[1:]
    all_checks = "--all-checks" in args
    tier = "quick"
    if "--tier" in args:
        tier = args[args.index("--tier") + 1]
    names = [a for a in args if not a.startswith("--") and a != tier]
    if not names:
        names = sorted(d for d in os.listdir(SEEDED) if os.path.exists(os.path.join(SEEDED, d, "patch.diff")))
    if not repo_clean():
        print("/repo has uncommitted changes to tracked files; refusing")
        return 2
    results = {}
    rp = os.path.join(SEEDED, "RESULTS.json")
    if os.path.exists(rp):
        results = json.load(open(rp))
    for name in names:
        d = os.path.join(SEEDED, name)
        meta = json.load(open(os.path.join(d, "meta.json")))
        pid = meta["property"]
        a = sh(["git", "-C", "/repo", "apply", os.path.join(d, "patch.diff")])
        if a.returncode != 0:
            print(name, "patch does not apply:", a.stdout[:300])
            results[name] = {"property": pid, "error": "patch does not apply"}
            continue
        try:
            # the checked profile first (one build); both profiles only if that one stays silent
            own = run_check(pid, tier, "checked")
            if own["exit"] != 1:
                own = run_check(pid, tier)
            res = {"property": pid, "tier": tier, "own_check": own, "other_checks": {}}
            if all_checks:
                for other in ALL:
                    if other != pid:
                        r = run_check(other, tier)
                        if r["exit"] != 0:
                            res["other_checks"][other] = r
            results[name] = res
            own = res["own_check"]
            print("%-14s %s own-check exit=%d %s | also fired: %s" % (name, pid, own["exit"], (own["signatures"] or [own["tail"]])[0][:110],
                                                                  ",".join(sorted(res["other_checks"])) or "-"))
        finally:
            sh(["git", "-C", "/repo", "checkout", "--", "."])
        with open(rp, "w") as f:
            json.dump(results, f, indent=1)
    # rebuild the harness against the clean tree so that later runs start warm
    sh([os.path.join(ROOT, "check"), "setup"], cwd=ROOT)
    return 0


if __name__ == "__main__":
    sys.exit(main())
