#!/usr/bin/env python3
"""Validate MANIFEST.json and every evidence file against the given schemas (needs jsonschema: run with python3-vt)."""
import json, sys, glob, os
import jsonschema
root = os.path.dirname(os.path.dirname(os.path.abspath(__file__)))
ok = True
man = json.load(open(os.path.join(root, "MANIFEST.json")))
jsonschema.validate(man, json.load(open("/root/.vp/MANIFEST.schema.json")))
print("MANIFEST ok: %d checks, %d not_applicable" % (len(man["checks"]), len(man.get("not_applicable", []))))
ids = [json.loads(l)["id"] for l in open(os.path.join(root, "properties.jsonl"))]
claimed = {c["property_id"] for c in man["checks"]}
na = {c["property_id"] for c in man.get("not_applicable", [])}
for i in ids:
    if (i in claimed) == (i in na):
        print("property %s must be exactly one of claimed / not_applicable" % i); ok = False
sch = json.load(open("/root/.vp/EVIDENCE.schema.json"))
for c in man["checks"]:
    f = c["evidence_file"]
    if not os.path.exists(f):
        print("missing evidence", f); ok = False; continue
    try:
        jsonschema.validate(json.load(open(f)), sch)
    except Exception as e:
        print("invalid evidence", f, str(e)[:300]); ok = False
print("ok" if ok else "PROBLEMS")
sys.exit(0 if ok else 1)
