#!/usr/bin/env python3
"""Write /verif/refactors/README.md from meta.json files and RESULTS.json."""
import json, os
ROOT = os.path.dirname(os.path.dirname(os.path.abspath(__file__)))
R = os.path.join(ROOT, "refactors")
res = json.load(open(os.path.join(R, "RESULTS.json"))) if os.path.exists(os.path.join(R, "RESULTS.json")) else {}
rows = []
for name in sorted(d for d in os.listdir(R) if os.path.isdir(os.path.join(R, d))):
    meta = json.load(open(os.path.join(R, name, "meta.json")))
    desc = " ".join(meta["description"].split())[:330]
    r = res.get(name)
    if r is None:
        out = "not run"
    elif not r["alarms"]:
        out = "all 20 checks silent"
    else:
        out = "ALARM: " + "; ".join("%s %s" % (k, (v["signatures"] or v["inconclusive"] or ["exit %s" % v["exit"]])[0][:90]) for k, v in r["alarms"].items())
    rows.append((name, desc, out))
with open(os.path.join(R, "README.md"), "w") as f:
    f.write("# Behaviour-preserving changes (false-alarm probes)\n\nEach directory holds `patch.diff`, `demo.rs` (property-level tests that pass with and without the change plus one `incidental_difference` test that pins the old incidental behaviour and fails with the change) and `meta.json`. Every check must stay silent on every one of them (`tools/try_refactors.py`, results in `RESULTS.json`). None of these changes is ever committed to /repo.\n\n")
    f.write("| change | what it changes (abridged) | outcome of running all twenty quick checks |\n|---|---|---|\n")
    for r in rows:
        f.write("| %s | %s | %s |\n" % (r[0], r[1].replace("|", "/"), r[2].replace("|", "/")))
    f.write("\n%d of %d probes leave every check silent.\n" % (sum(1 for r in rows if r[2].startswith("all 20")), len(rows)))
print("wrote refactors/README.md")
