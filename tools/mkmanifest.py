#!/usr/bin/env python3
"""Regenerate /verif/MANIFEST.json from the table below. Run after adding or removing a monitor."""
import json, os, subprocess

ROOT = os.path.dirname(os.path.dirname(os.path.abspath(__file__)))

# id -> (design section, technique, level text, level note)
CHECKS = {
    "C01": ("4/C01", "runtime monitor: real compose/>> on generated + hostile pairs, oracle = reference pushout on a plain model + isomorphism search with pinned interfaces, panics recorded as outcomes, two build profiles",
            "Exploration: every executed composition is decided by an independent model (union of the two diagrams glued along the boundary) up to isomorphism, including type-mismatch refusal and totality. Held on the K executions listed in the evidence, not a proof.",
            "Trusts the plain reference model and the self-tested isomorphism search in /verif/harness; covers small diagrams (<=14 nodes) plus closed-form stress shapes, label alphabets of the generators, Vec backend."),
}

NOT_YET = "monitor not built yet in this round (design in DESIGN.md section 4); not claimed until its check exists"


def main():
    props = [json.loads(l) for l in open(os.path.join(ROOT, "properties.jsonl"))]
    hooks_commits = subprocess.run(["git", "-C", "/repo", "log", "--format=%H %s"], stdout=subprocess.PIPE, text=True).stdout.splitlines()
    hook_shas = [l.split()[0] for l in hooks_commits if "verif-hooks" in l]
    checks = []
    na = []
    for p in props:
        pid = p["id"]
        if pid in CHECKS:
            ref, tech, text, note = CHECKS[pid]
            checks.append({
                "property_id": pid,
                "quick_cmd": "./check %s --tier quick" % pid,
                "thorough_cmd": "./check %s --tier thorough" % pid,
                "evidence_file": "/verif/evidence/%s.json" % pid,
                "replay_cmd_template": "./check %s --replay {path}" % pid,
                "engine": "ohmon",
                "level_claimed": {"category": "exploration", "text": text, "design_ref": "DESIGN.md section " + ref},
                "level_note": note,
                "technique": tech,
            })
        else:
            na.append({"property_id": pid, "reason": NOT_YET})
    man = {
        "version": 1,
        "setup_cmd": "./check setup",
        "hooks": {
            "guard": "cargo feature verif-hooks (off by default)",
            "enable": "the harness crate depends on open-hypergraphs by path = /repo with features = [\"serde\", \"verif-hooks\"]; cargo rebuilds /repo's working tree on every check",
            "baseline_off_cmd": "cd /repo && cargo test --workspace --no-fail-fast --offline",
            "source_commits": hook_shas,
            "add_only": True,
        },
        "engines": [{
            "name": "ohmon",
            "path": "/verif/harness",
            "serves_properties": sorted(CHECKS.keys()),
            "kind_free_text": "Rust binary linking the real crate (two build profiles: overflow+debug assertions on, plain release); seeded workload generators + fixed hostile corpus; per-call outcome recording (value/None/Err/panic/hang); oracles = plain Vec/loop reference model, isomorphism search, shadow models, callback event logs; python3 driver ./check shards over 16 cores, merges reports, applies coverage floors and known-findings, writes evidence",
        }],
        "checks": checks,
        "notes": "Exit codes of ./check: 0 held on what was observed, 1 violation (VIOLATION lines on stdout), 2 inconclusive (never on an unchanged tree: the hostile corpus guarantees the coverage floors). VERIF_SEED selects the workload; VERIF_SCALE scales the case budget.",
        "not_applicable": na,
    }
    with open(os.path.join(ROOT, "MANIFEST.json"), "w") as f:
        json.dump(man, f, indent=1)
    print("wrote MANIFEST.json: %d checks, %d not claimed" % (len(checks), len(na)))


if __name__ == "__main__":
    main()
