#!/usr/bin/env python3
"""Regenerate /verif/MANIFEST.json from the table below. Run after adding or removing a monitor."""
import json, os, subprocess

ROOT = os.path.dirname(os.path.dirname(os.path.abspath(__file__)))

# id -> (design section, technique, level text, level note)
COMMON_NOTE = "Trusts the plain Vec/loop reference model, the oracles and (where used) the self-tested isomorphism search in /verif/harness; covers the size bands and label alphabets of the generators plus the fixed hostile corpus, Vec backend, two build profiles (overflow+debug assertions on / plain release). Held on the executions listed in the evidence, not a proof."

# id -> (design section, technique, level text)
ALL = {
    "C01": ("runtime monitor on compose / >>: reference pushout on a plain model + isomorphism search with pinned interfaces; mismatch refusal and panics recorded as outcomes",
            "Exploration: every executed composition is decided against an independently computed gluing up to isomorphism, including type-mismatch refusal and totality."),
    "C02": ("runtime monitor on strict and lax tensor / |: field-for-field comparison with model juxtaposition; associativity and unit laws as raw data equality",
            "Exploration: every executed tensor is compared on the nose (all raw fields, offsets, segment codomains, pending pairs) with juxtaposition computed by loops."),
    "C03": ("runtime monitor on both sides of each symmetric-monoidal law computed through the public API; isomorphism decision procedure on the results",
            "Exploration: associativity, unit, interchange, twist naturality, self-inverse symmetry and both hexagons decided by a complete isomorphism search on every generated instance."),
    "C04": ("runtime monitor on dagger / spider / half_spider (strict and lax): raw equality for swap and involution, model cospan composition + isomorphism for fusion, exact rejection condition",
            "Exploration: dagger laws, spider fusion against union-find-free cospan composition, spiders-as-identities/symmetries and the exact None condition on every generated cospan."),
    "C05": ("runtime monitor: deep well-formedness walker over every diagram returned by 36 kinds of public operation + accept/reject oracle on raw data at the boundaries of each checked constructor, accepted values compared with the data handed in",
            "Exploration: every returned diagram is walked field by field and its promised type checked; every checked constructor is driven at max=target-1/target/target+1, sum+-1, count+-1."),
    "C06": ("runtime monitor on the FiniteFunction / SemifiniteFunction API against functions-as-Vec computed by loops; coequalizer partition equality against naive closure; universal-map existence oracle; exhaustive small scope",
            "Exploration + exhaustive small scope (all tables with source<=3, target<=3): every public method compared with its set-theoretic meaning."),
    "C07": ("runtime monitor on every VecArray primitive against scalar definitions (open choices accepted as the contract says); exhaustive small arrays; Miri as auxiliary undefined-behaviour trip-wire in the thorough tier",
            "Exploration + exhaustive small scope (arrays of length<=4 over values<=3): each primitive compared element-wise with a scalar loop."),
    "C08": ("runtime monitor on segmented arrays: results decoded by explicit loops and compared with list-of-lists semantics; iterator event log (next/len/size_hint after every step); constructor accept/reject at the boundary",
            "Exploration: every operation of IndexedCoproduct/Operations re-establishes the size invariant and equals the list-of-lists result; iterators report the exact remaining count after every step."),
    "C09": ("runtime monitor on lax quotient(): snapshot of all public fields before/after, flood-fill component oracle, Ok-iff-uniform, idempotence, atomic failure; call histories with a shadow model in lock-step",
            "Exploration: every executed quotient (single calls and histories) is bracketed by state snapshots and decided against naive connected components."),
    "C10": ("runtime monitor on from_strict/to_strict round trips (raw equality) and on lax vs strict categorical operations (strictify + isomorphism); lax_compose compared field by field with juxtaposition + boundary pairs; in-place variants compared with pure ones on raw fields",
            "Exploration: lossless conversion and commutation of strictification with compose/lax_compose/tensor/identity/twist/spider/dagger/singleton on every generated pair."),
    "C11": ("runtime monitor on builder histories: list-based shadow model replayed step by step, every public field and return value compared after each call; rejected deletions run on a clone; serde JSON round trip, key set and the README example with enum labels",
            "Exploration over histories: 30-60 step editing sequences with valid/duplicate/out-of-range arguments refine a plain list model; persisted JSON uses the documented field names."),
    "C12": ("runtime monitor on Functor::map_arrow (strict trait and lax trait via dyn_functor) against generator-wise substitution on the plain model + isomorphism (also on lax arguments with pending unifications); functoriality laws through the API",
            "Exploration over parameterised functor families (object image length 0-3, operation image single/composite/spider/empty) crossed with generated diagrams."),
    "C13": ("runtime monitor on try_define_map_arrow / map_arrow_witness: refusal iff pending unifications, quotiented result isomorphic to strict path and model, witness segment/label/interface oracle",
            "Exploration: native lax functor path compared with the strict path and the model on every generated quotient-free diagram; witness checked through the quotient map."),
    "C14": ("runtime monitor on Optic::map_arrow/adapt and lax map_adapted: exact type lists, model lens + isomorphism for single operations, functoriality, monogamy, and evaluation of the adapted optic against an independent reverse-mode derivative over Z/2^64",
            "Exploration: typing, structure and functoriality on generated diagrams; derivative semantics on random monogamous acyclic polynomial circuits with random u64 inputs."),
    "C15": ("runtime monitor on layer / layered_operations and (via verif-hooks) converse / adjacency / (relative) indegree / kahn: dependency relation by loops, cyclic set by stripping cross-checked with transitive closure, layering clauses",
            "Exploration: dense small diagrams (multiplicities 3-16 common), cyclic, self-dependent, cycle-with-tail, zero-arity, raw multigraphs, 3*10^3-operation chain; panics are recorded outcomes."),
    "C16": ("runtime monitor on eval with a logging apply callback: exactly-once + dependency-order event-log check, reference interpreter on the plain model, renumbering invariance, refusal iff cyclic, u64 and String values",
            "Exploration: circuits over a test signature with fan-out, multi-output gates and inputs at different depths; every batch passed to the callback is logged and checked."),
    "C17": ("runtime monitor on is_acyclic / is_monogamous / in_degree / out_degree: DFS and counting definitions on the plain model, outcome (value or panic) recorded per build profile",
            "Exploration: total, exact answers on dense small diagrams incl. isolated/dangling nodes, repeated incidences and many parallel connections, in a checked and a release build."),
    "C18": ("runtime monitor on HypergraphArrow::new / is_monomorphism / is_convex_subgraph: model set of failing naturality conditions, injectivity, brute-force two-state reachability for convexity",
            "Exploration: natural arrows, each single perturbation, junk and mistyped maps; convexity on inclusions into cyclic graphs with parallel/repeated incidences."),
    "C19": ("runtime monitor on var::build / forget / forget_monogamous: expression DAG evaluation vs eval of the built term (callback log), model substitution of uniform var edges + isomorphism, totality",
            "Exploration over programs: random expression DAGs with sharing and arbitrary lax terms with var hyperedges of every arity and label mix (incl. source-less, differently labelled targets)."),
    "C20": ("differential runtime monitor: the same strict-module calls at VecKind and at an adversarial, seeded, contract-conforming ArrayKind defined in the harness (self-checked against the C07 oracle); results (compose, functor, optic, layer, layered_operations, eval, predicates, morphism tests) compared up to isomorphism / equality",
            "Exploration over configurations: argsort tie order, component numbering, sparse-bincount key order, scatter filler and write order all resolved differently per seed; divergence counters must be non-zero."),
}

BUILT = ["C01", "C02", "C03", "C04", "C05", "C06", "C07", "C08", "C09", "C10", "C11", "C12", "C13", "C14", "C15", "C16", "C17", "C18", "C19", "C20"]

CHECKS = {pid: ("4/" + pid, ALL[pid][0] + "; two build profiles; shards are long single-process call histories, every second one with a companion thread running the same cases in reverse order concurrently, after a primer of very large calls (hidden process state / thread interference observable)", ALL[pid][1] + " Held on the K executions listed in the evidence, not a proof.", COMMON_NOTE) for pid in BUILT}

NOT_YET = "monitor not built yet in this round (design in DESIGN.md section 4); not claimed until its check exists"


def main():
    props = [json.loads(l) for l in open(os.path.join(ROOT, "properties.jsonl"))]
    hooks_commits = subprocess.run(["git", "-C", "/repo", "log", "--format=%H %s"], stdout=subprocess.PIPE, text=True).stdout.splitlines()
    hook_shas = [l.split()[0] for l in hooks_commits if "verif-hooks" in l]
    checks = []
    na = []
    for p in props:
        pid = p["id"]
        if pid in CHECKS:
            ref, tech, text, note = CHECKS[pid]
            checks.append({
                "property_id": pid,
                "quick_cmd": "./check %s --tier quick" % pid,
                "thorough_cmd": "./check %s --tier thorough" % pid,
                "evidence_file": "/verif/evidence/%s.json" % pid,
                "replay_cmd_template": "./check %s --replay {path}" % pid,
                "engine": "ohmon",
                "level_claimed": {"category": "exploration", "text": text, "design_ref": "DESIGN.md section " + ref},
                "level_note": note,
                "technique": tech,
            })
        else:
            na.append({"property_id": pid, "reason": NOT_YET})
    man = {
        "version": 1,
        "setup_cmd": "./check setup",
        "hooks": {
            "guard": "cargo feature verif-hooks (off by default)",
            "enable": "the harness crate depends on open-hypergraphs by path = /repo with features = [\"serde\", \"verif-hooks\"]; cargo rebuilds /repo's working tree on every check",
            "baseline_off_cmd": "cd /repo && cargo test --workspace --no-fail-fast --offline",
            "source_commits": hook_shas,
            "add_only": True,
        },
        "engines": [{
            "name": "ohmon",
            "path": "/verif/harness",
            "serves_properties": sorted(CHECKS.keys()),
            "kind_free_text": "Rust binary linking the real crate (two build profiles: overflow+debug assertions on, plain release); seeded workload generators + fixed hostile corpus; per-call outcome recording (value/None/Err/panic/hang); oracles = plain Vec/loop reference model, isomorphism search, shadow models, callback event logs; python3 driver ./check shards over 16 cores, merges reports, applies coverage floors and known-findings, writes evidence",
        }],
        "checks": checks,
        "notes": "Exit codes of ./check: 0 held on what was observed, 1 violation (VIOLATION lines on stdout), 2 inconclusive (never on an unchanged tree: the hostile corpus guarantees the coverage floors). VERIF_SEED selects the workload; VERIF_SCALE scales the case budget.",
        "not_applicable": na,
    }
    with open(os.path.join(ROOT, "MANIFEST.json"), "w") as f:
        json.dump(man, f, indent=1)
    print("wrote MANIFEST.json: %d checks, %d not claimed" % (len(checks), len(na)))


if __name__ == "__main__":
    main()
