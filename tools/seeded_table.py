#!/usr/bin/env python3
"""Write /verif/seeded/README.md: one row per seeded change (what it is, what it needs, which checks fired)."""
import json, os
ROOT = os.path.dirname(os.path.dirname(os.path.abspath(__file__)))
S = os.path.join(ROOT, "seeded")
res = json.load(open(os.path.join(S, "RESULTS.json"))) if os.path.exists(os.path.join(S, "RESULTS.json")) else {}
rows = []
for name in sorted(d for d in os.listdir(S) if os.path.isdir(os.path.join(S, d))):
    meta = json.load(open(os.path.join(S, name, "meta.json")))
    desc = " ".join(meta["description"].split())
    r = res.get(name, {})
    own = r.get("own_check", {})
    fired = "yes" if own.get("exit") == 1 else ("NO" if own else "not run")
    sig = (own.get("signatures") or [""])[0]
    others = ", ".join(sorted(r.get("other_checks", {}).keys()))
    rows.append((name, meta["property"], desc[:260], fired, sig, others))
with open(os.path.join(S, "README.md"), "w") as f:
    f.write("# Seeded property-breaking changes\n\nEach directory holds `patch.diff` (apply with `git -C /repo apply`), `demo.rs` (an integration test that fails with the change and passes without) and `meta.json` (origin, what it needs to manifest, what was run to confirm it). None of these changes is ever committed to /repo. `tools/try_seeded.py` re-runs the checks against them and rewrites `RESULTS.json`; this table is generated from both by `tools/seeded_table.py`.\n\n")
    f.write("| change | property | what it does / needs (abridged) | own check fires | first signature | other checks that fire |\n|---|---|---|---|---|---|\n")
    for r in rows:
        f.write("| %s | %s | %s | %s | `%s` | %s |\n" % (r[0], r[1], r[2].replace("|", "/"), r[3], r[4].replace("|", "/"), r[5] or "-"))
    n = len(rows); hit = sum(1 for r in rows if r[3] == "yes")
    f.write("\n%d of %d seeded changes are reported by the check of the property they break.\n" % (hit, n))
print("wrote seeded/README.md", len(rows))
