#!/usr/bin/env python3
"""One-off helper: append a sentence to the `rule()` text of monitors (kept for the record of what was added
in the clause-audit round). Idempotent: a sentence already present is not added again."""
import re, sys, os

EXTRA = {
 "c01": "Also: the same pairs over String labels (non-Copy) and over unit labels, and a mismatch by a permuted boundary type.",
 "c02": "Also: lax results are walked (lengths of all public vectors, ranges), the three-fold lax tensor is compared with the model, and the identity on the unit object must be the empty diagram.",
 "c04": "Also: half_spider (strict and lax) refuses exactly when the leg's codomain is not the node count and otherwise is the spider with an identity leg (compared with the model); the lax Spider trait; legs with an entry equal to the node count (also over an empty node list); strict dagger laws compared with the model.",
 "c05": "Also: every accepted constructor value is compared field by field with the raw data handed in (non-empty, different legs; zero nodes allowed), and a partial operation returning None on well-typed arguments is a violation.",
 "c06": "Also: SemifiniteArrow identities on the label set (never composable), TryFrom, initial_object, equality of finite functions (table and codomain) and of label arrays; a quarter of the universal-map cases go through a surjection built for the purpose (up to 12 classes, fibres of 1-6).",
 "c07": "Also: get / get_range / set_range (all six range forms, excluded start bound, bounds anywhere in the array) / scatter_assign / scatter_assign_constant / sort_by on String elements, bincount at the tight size, irregular graphs of up to 700 nodes for connected components and dense numbering also for the tournament shapes.",
 "c08": "Also: accepted constructor payloads are decoded, every slice yielded by the owning iterator must carry the codomain of the values, flatmap_sources with finite-function values on the right and label values on the left, indexed_values on label arrays.",
 "c09": "Also: the read-only coequalizer() of a bare lax hypergraph (same partition, diagram untouched) and the lengths of all public vectors on the failure path.",
 "c10": "Also: every operand's to_strict is compared with the model quotient and is_strict with the absence of pending pairs; lax_compose and >> are compared field by field with juxtaposition + one pending pair per boundary position (pairs as a multiset of unordered pairs), also when the labels differ, where the mismatch must surface as a failing quotient; in-place variants compared on raw fields; round trips of diagrams of up to 40 nodes.",
 "c11": "Also: hyperedge interfaces given as struct / pair of vectors / pair of slices, builder calls on the bare lax::Hypergraph, shorter / emptied / type-changing relabels, out-of-range identifiers at any position (just past the end, far past it, usize::MAX) for both deletion levels and the deprecated alias, the README's JSON example verbatim with enum label types, identifiers / hyperedge / bare hypergraph serialised on their own.",
 "c12": "Also: operation images on a shared, non-injective boundary (possibly cyclic), the lax trait on arguments that still carry pending unifications, the deprecated shim compared up to isomorphism.",
 "c13": "Also: refusal with label-conflicting pending pairs, and the library's own Identity functor through the native path (witness = one singleton segment per node).",
 "c14": "Also: both lax entry points on arguments that still carry pending unifications, and Optic::map_operations called directly on the batch of the argument's operations (tensor of the model lenses).",
 "c15": "Also: hooks dense_relative_indegree / sparse_relative_indegree / node_adjacency_from_incidence, codomains of the adjacency results, a dependency of multiplicity 80, 80 parallel dependencies, a ring of 600 operations with a tail of 300; any non-zero flag reads as unvisited.",
 "c16": "Also: circuits with 17-48 operations ready at once, chains of 200-500 operations (a third of them closed into a cycle), the same circuits evaluated over String values, and the event log of the renumbered run.",
 "c17": "Also: a path of 3000 operations (open and closed by one back reference), one 64->64 operation, one dependency of multiplicity 64x64.",
 "c18": "Also: is_monomorphism asked of every pair of maps (through the public fields, accepted or not), five more ways of mistyping a map (either domain too small / too large, codomain too small, both codomains), paths of 200 operations for the convexity search; floors per perturbation class and per TypeMismatch variant.",
 "c19": "Also: every operator hyperedge must sit on nodes of its operand and result types (the result-type function of the test signature is not symmetric), pending unifications of a built term are applied before it is evaluated, and the Forget functor value is driven through the native lax path.",
 "c20": "Also at AdvKind: layered_operations, the library's Identity functor, refusal of a mismatching composition. AdvKind's choices are a deterministic function of (sigma, primitive, argument contents).",
}

root = os.path.join(os.path.dirname(os.path.abspath(__file__)), "..", "harness", "src", "mon")
for k, extra in EXTRA.items():
    p = os.path.join(root, k + ".rs")
    s = open(p).read()
    if extra in s:
        continue
    a = s.index("fn rule(&self) -> &'static str {")
    b = s.index("\n    }", a)
    body = s[a:b]
    q = body.rindex('"')
    body = body[:q] + " " + extra.replace('"', '\\"') + body[q:]
    s = s[:a] + body + s[b:]
    open(p, "w").write(s)
    print("updated", k)
