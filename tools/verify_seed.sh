#!/bin/bash
# usage: verify_seed.sh <PID> <N>   -- confirm an agent-written change in its scratch worktree /tmp/mut/<PID>
# (1) clean tree: demo passes  (2) change applied: whole existing suite passes AND demo fails  (3) tree reverted.
# On success copies patch, demo and a meta.json into /verif/seeded/<PID>-<N>/.
set -u
PID=$1; N=$2; WT=/tmp/mut/$PID; OUT=$WT/out
cd $WT || exit 2
git checkout -q -- . ; rm -f tests/demo_mut*.rs
[ -f $OUT/mut$N.diff ] || { echo "no $OUT/mut$N.diff"; exit 2; }
# restrict patch to src/
if grep -E '^\+\+\+ b/' $OUT/mut$N.diff | grep -v '^+++ b/src/' ; then echo "patch touches files outside src/"; exit 1; fi
FEAT=""; if grep -q "serde" $OUT/demo_mut$N.rs; then FEAT="--features serde"; fi
if [ -z "${NOREL:-}" ] && grep -q -- "--release" $OUT/mut$N.txt; then FEAT="$FEAT --release"; fi
cp $OUT/demo_mut$N.rs tests/demo_mut$N.rs
echo "== clean tree: demo must pass"
if ! cargo test --offline $FEAT --test demo_mut$N > /tmp/mut/$PID/clean_demo.log 2>&1; then echo "FAIL: demo does not pass on the clean tree"; tail -20 /tmp/mut/$PID/clean_demo.log; rm -f tests/demo_mut$N.rs; exit 1; fi
rm -f tests/demo_mut$N.rs
git apply $OUT/mut$N.diff || { echo "FAIL: patch does not apply"; exit 1; }
echo "== mutated tree: existing suite must pass"
cargo test --workspace --no-fail-fast --offline > /tmp/mut/$PID/suite.log 2>&1
SUITE=$?
PASSED=$(grep -E "^test result: ok" /tmp/mut/$PID/suite.log | awk '{s+=$4} END {print s}')
FAILED=$(grep -E "^test result:" /tmp/mut/$PID/suite.log | awk '{s+=$6} END {print s}')
echo "suite exit=$SUITE passed=$PASSED failed=$FAILED"
cp $OUT/demo_mut$N.rs tests/demo_mut$N.rs
echo "== mutated tree: demo must fail"
cargo test --offline $FEAT --test demo_mut$N > /tmp/mut/$PID/mut_demo.log 2>&1
DEMO=$?
rm -f tests/demo_mut$N.rs
git checkout -q -- .
if [ $SUITE -ne 0 ] || [ "$FAILED" != "0" ]; then echo "FAIL: existing suite does not pass with the change"; grep -E "FAILED|failed|panicked" /tmp/mut/$PID/suite.log | head; exit 1; fi
if [ $DEMO -eq 0 ]; then echo "FAIL: demo passes with the change"; exit 1; fi
if grep -q "error\[E" /tmp/mut/$PID/mut_demo.log; then echo "FAIL: demo does not compile with the change"; exit 1; fi
D=/verif/seeded/$PID-$N
mkdir -p $D
cp $OUT/mut$N.diff $D/patch.diff
cp $OUT/demo_mut$N.rs $D/demo.rs
python3 - "$PID" "$N" "$PASSED" <<'PY'
import json,sys
pid,n,passed=sys.argv[1],sys.argv[2],sys.argv[3]
txt=open('/tmp/mut/%s/out/mut%s.txt'%(pid,n)).read()
fail=[l for l in open('/tmp/mut/%s/mut_demo.log'%pid).read().splitlines() if 'panicked' in l or 'test result' in l][:4]
meta={"property":pid,"origin":"independent sub-agent given only the property text and a scratch worktree","description":txt.strip(),
      "confirmed":{"demo_on_clean_tree":"passes (cargo test --offline --test demo_mut%s)"%n,
                   "existing_suite_with_change":"cargo test --workspace --no-fail-fast --offline: %s tests passed, 0 failed"%passed,
                   "demo_with_change":"fails: "+" | ".join(fail)[:600]},
      "how_to_run_demo":"copy demo.rs to /repo/tests/demo.rs (scratch worktree!), cargo test --offline --test demo"}
json.dump(meta,open('/verif/seeded/%s-%s/meta.json'%(pid,n),'w'),indent=1)
PY
echo "OK: confirmed, stored in $D"
