#!/bin/bash
# usage: verify_ref.sh <RID> <N>  -- confirm an agent-written BEHAVIOUR-PRESERVING change in /tmp/mut/<RID>:
# clean tree: every demo test passes; with the change: the whole suite passes, every demo test except
# `incidental_difference` passes, and `incidental_difference` fails. Stores it in /verif/refactors/<RID>-<N>/.
set -u
RID=$1; N=$2; WT=/tmp/mut/$RID; OUT=$WT/out
cd $WT || exit 2
git checkout -q -- . ; rm -f tests/demo_ref*.rs
[ -f $OUT/ref$N.diff ] || { echo "no $OUT/ref$N.diff"; exit 2; }
if grep -E '^\+\+\+ b/' $OUT/ref$N.diff | grep -v '^+++ b/src/' ; then echo "patch touches files outside src/"; exit 1; fi
cp $OUT/demo_ref$N.rs tests/demo_ref$N.rs
if ! cargo test --offline --test demo_ref$N > $WT/clean_demo.log 2>&1; then echo "FAIL: demo does not pass on the clean tree"; tail -15 $WT/clean_demo.log; rm -f tests/demo_ref$N.rs; exit 1; fi
rm -f tests/demo_ref$N.rs
git apply $OUT/ref$N.diff || { echo "FAIL: patch does not apply"; exit 1; }
cargo test --workspace --no-fail-fast --offline > $WT/suite.log 2>&1
SUITE=$?
FAILED=$(grep -E "^test result:" $WT/suite.log | awk '{s+=$6} END {print s}')
cp $OUT/demo_ref$N.rs tests/demo_ref$N.rs
cargo test --offline --test demo_ref$N > $WT/mut_demo.log 2>&1
rm -f tests/demo_ref$N.rs
git checkout -q -- .
if [ $SUITE -ne 0 ] || [ "$FAILED" != "0" ]; then echo "FAIL: existing suite does not pass with the change"; exit 1; fi
NFAIL=$(grep -E "^test [A-Za-z0-9_:]+ \.\.\. FAILED" $WT/mut_demo.log | wc -l)
INC=$(grep -E "^test .*incidental_difference .* FAILED" $WT/mut_demo.log | wc -l)
if [ "$NFAIL" != "1" ] || [ "$INC" != "1" ]; then echo "FAIL: expected exactly incidental_difference to fail with the change (failed=$NFAIL incidental=$INC)"; grep -E "^test .* FAILED" $WT/mut_demo.log | head; exit 1; fi
D=/verif/refactors/$RID-$N
mkdir -p $D
cp $OUT/ref$N.diff $D/patch.diff
cp $OUT/demo_ref$N.rs $D/demo.rs
python3 - "$RID" "$N" <<'PY'
import json,sys
rid,n=sys.argv[1],sys.argv[2]
txt=open('/tmp/mut/%s/out/ref%s.txt'%(rid,n)).read()
meta={"kind":"behaviour-preserving change (false-alarm probe): every check must stay silent on it","origin":"independent sub-agent given the twenty property statements, an area of the library and a scratch worktree",
      "description":txt.strip(),
      "confirmed":{"existing_suite_with_change":"passes (cargo test --workspace --no-fail-fast --offline)","demo":"property-level tests pass with and without the change; only `incidental_difference` fails with the change"}}
json.dump(meta,open('/verif/refactors/%s-%s/meta.json'%(rid,n),'w'),indent=1)
PY
echo "OK: confirmed, stored in $D"
