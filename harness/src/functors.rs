//! Parameterised functor families used by C12, C13, C20: object map o |-> list of length 0..3,
//! operation map |-> single operation / two-operation composite / spider-only / with scalars.
//! Every image is a pure function of (spec, label, source type, target type).

use crate::conv::*;
use crate::model::*;
use crate::rng::Rng;
use open_hypergraphs::array::vec::VecKind;
use open_hypergraphs::lax;
use open_hypergraphs::operations::Operations;
use open_hypergraphs::strict::functor::{define_map_arrow, Functor};

#[derive(Clone, Debug, Hash, PartialEq, Eq)]
pub struct FSpec {
    /// image length of an object, selected by label mod 3
    pub lens: [usize; 3],
    /// image labels encode (object, position) -- a mis-routed leg then changes the iso class
    pub distinct_images: bool,
    /// 0 single operation, 1 composite of two, 2 spider only, 3 single + scalar + isolated node,
    /// 4 operation(s) on a shared / non-injective boundary (possibly cyclic), 5 chosen per operation label
    pub op: u8,
}

impl FSpec {
    pub fn random(r: &mut Rng) -> FSpec {
        let lens = match r.below(6) {
            0 => [1, 1, 1],
            1 => [2, 2, 2],
            2 => [0, 0, 0],
            _ => [r.below(4), r.below(4), r.below(4)],
        };
        FSpec { lens, distinct_images: r.chance(2, 3), op: r.below(6) as u8 }
    }
    pub fn obj(&self, o: &u32) -> Vec<u32> {
        let n = self.lens[(*o % 3) as usize];
        (0..n).map(|j| if self.distinct_images { 1000 + 10 * *o + j as u32 } else { 7 }).collect()
    }
    pub fn ty(&self, a: &[u32]) -> Vec<u32> {
        a.iter().flat_map(|o| self.obj(o)).collect()
    }
    pub fn op(&self, l: &u64, st: &[u32], tt: &[u32]) -> POh<u32, u64> {
        let fa = self.ty(st);
        let fb = self.ty(tt);
        let kind = if self.op == 5 { (*l % 5) as u8 } else { self.op };
        let (na, nb) = (fa.len(), fb.len());
        match kind {
            1 => {
                // fa -> [99, 98] -> fb through two operations
                let mut w = fa.clone();
                w.push(99);
                w.push(98);
                w.extend(fb.iter().cloned());
                POh {
                    w,
                    e: vec![
                        PEdge { l: 200 + l, s: (0..na).collect(), t: vec![na, na + 1] },
                        PEdge { l: 300 + l, s: vec![na, na + 1], t: (na + 2..na + 2 + nb).collect() },
                    ],
                    s: (0..na).collect(),
                    t: (na + 2..na + 2 + nb).collect(),
                }
            }
            2 => {
                // discrete: one node per distinct label, legs by label
                let mut labs: Vec<u32> = vec![];
                for x in fa.iter().chain(fb.iter()) {
                    if !labs.contains(x) {
                        labs.push(*x);
                    }
                }
                let pos = |x: &u32| labs.iter().position(|y| y == x).unwrap();
                POh { s: fa.iter().map(pos).collect(), t: fb.iter().map(pos).collect(), w: labs, e: vec![] }
            }
            4 => {
                // target legs with equal labels share one node; the first target leg is the first source
                // node when the labels allow it; for even labels a second operation closes a cycle
                let mut w = fa.clone();
                let mut first: Vec<(u32, usize)> = vec![];
                let mut t: Vec<usize> = vec![];
                for (j, x) in fb.iter().enumerate() {
                    if j == 0 && na > 0 && fa[0] == *x {
                        first.push((*x, 0));
                        t.push(0);
                        continue;
                    }
                    match first.iter().find(|(y, _)| y == x) {
                        Some((_, n)) => t.push(*n),
                        None => {
                            w.push(*x);
                            first.push((*x, w.len() - 1));
                            t.push(w.len() - 1);
                        }
                    }
                }
                let distinct_t: Vec<usize> = first.iter().map(|p| p.1).collect();
                let mut e = vec![PEdge { l: 500 + l, s: (0..na).collect(), t: distinct_t }];
                if na > 0 && nb > 0 && l % 2 == 0 {
                    e.push(PEdge { l: 600 + l, s: vec![t[0]], t: vec![0] });
                }
                POh { w, e, s: (0..na).collect(), t }
            }
            3 => {
                let mut p = POh::singleton(100 + l, fa, fb);
                p.w.push(55);
                p.e.push(PEdge { l: 400 + l, s: vec![], t: vec![] });
                p
            }
            _ => POh::singleton(100 + l, fa, fb),
        }
    }
    /// The same operation image as a *lax* diagram. Composite images are presented the way a user
    /// would build them with `lax_compose`: the two operations keep separate boundary nodes and
    /// the gluing is left as pending unifications (so folding images with `tensor_assign` has to
    /// offset pending pairs correctly).
    pub fn op_lax(&self, l: &u64, st: &[u32], tt: &[u32]) -> PLax<u32, u64> {
        let kind = if self.op == 5 { (*l % 5) as u8 } else { self.op };
        if kind == 3 || ((kind == 0 || kind == 4) && *l % 2 == 1) {
            return explode_shuffled(&self.op(l, st, tt));
        }
        if kind != 1 {
            return self.op(l, st, tt).to_lax();
        }
        let fa = self.ty(st);
        let fb = self.ty(tt);
        let (na, nb) = (fa.len(), fb.len());
        // nodes: fa | 99 98 (outputs of first) | 99 98 (inputs of second) | fb
        let mut w = fa.clone();
        w.extend([99, 98, 99, 98]);
        w.extend(fb.iter().cloned());
        PLax {
            w,
            e: vec![
                PEdge { l: 200 + l, s: (0..na).collect(), t: vec![na, na + 1] },
                PEdge { l: 300 + l, s: vec![na + 2, na + 3], t: (na + 4..na + 4 + nb).collect() },
            ],
            s: (0..na).collect(),
            t: (na + 4..na + 4 + nb).collect(),
            q: vec![(na, na + 2), (na + 1, na + 3)],
        }
    }
    pub fn obj_fn(&self) -> impl Fn(&u32) -> Vec<u32> + '_ {
        move |o| self.obj(o)
    }
    pub fn op_fn(&self) -> impl Fn(&u64, &[u32], &[u32]) -> POh<u32, u64> + '_ {
        move |l, s, t| self.op(l, s, t)
    }
    /// model image of a diagram
    pub fn apply(&self, f: &POh<u32, u64>) -> Result<Subst<u32, u64>, SubstErr> {
        substitute(f, &|o| self.obj(o), &|l, s, t| self.op(l, s, t))
    }
}

/// strict functor (Vec backend) defined by a spec
pub struct SpecFunctor(pub FSpec);

impl Functor<VecKind, u32, u64, u32, u64> for SpecFunctor {
    fn map_object(&self, a: &SF<u32>) -> SegS<u32> {
        let lists: Vec<Vec<u32>> = a.0 .0.iter().map(|o| self.0.obj(o)).collect();
        segs_from_lists(&lists)
    }
    fn map_operations(&self, ops: Operations<VecKind, u32, u64>) -> SOh<u32, u64> {
        let mut acc: POh<u32, u64> = POh::empty();
        for (l, s, t) in ops.iter() {
            acc = acc.tensor(&self.0.op(l, s, t));
        }
        to_strict(&acc)
    }
    fn map_arrow(&self, f: &SOh<u32, u64>) -> SOh<u32, u64> {
        define_map_arrow(self, f)
    }
}

/// lax functor defined by a spec; `native` selects which library path `map_arrow` uses
#[derive(Clone)]
pub struct LaxSpec(pub FSpec);

impl lax::functor::Functor<u32, u64, u32, u64> for LaxSpec {
    fn map_object(&self, o: &u32) -> impl ExactSizeIterator<Item = u32> {
        self.0.obj(o).into_iter()
    }
    fn map_operation(&self, a: &u64, source: &[u32], target: &[u32]) -> LOh<u32, u64> {
        to_lax(&self.0.op_lax(a, source, target))
    }
    fn map_arrow(&self, f: &LOh<u32, u64>) -> LOh<u32, u64> {
        lax::functor::dyn_functor::define_map_arrow(self, f)
    }
}
