//! Oracles shared by several monitors (C15, C16, C17, C20).

use crate::model::*;

/// Judge a layering `(order, unvisited)` of the directed multigraph `succ` (successor lists,
/// "b in succ[a]" = b depends on a).
/// Err(clause, explanation) names the violated clause of property C15.
pub fn judge_layering(
    succ: &[Vec<usize>],
    order: &[usize],
    unvisited: &[usize],
) -> Result<(), (&'static str, String)> {
    let n = succ.len();
    if order.len() != n || unvisited.len() != n {
        return Err(("shape", format!("{} vertices, order has {}, flags have {}", n, order.len(), unvisited.len())));
    }
    let (left, depth) = strip_depths(succ);
    for y in 0..n {
        // any non-zero flag reads as "unvisited" (the statement does not fix its value)
        if (unvisited[y] != 0) != left[y] {
            return Err((
                "unvisited-iff-cyclic",
                format!(
                    "operation {} is {} a cycle or downstream of one but is flagged {}",
                    y,
                    if left[y] { "on" } else { "not on" },
                    if unvisited[y] != 0 { "unvisited" } else { "visited" }
                ),
            ));
        }
    }
    let preds = preds_of(succ);
    let mut longest = 0usize; // number of operations in the longest chain among visited ones
    for y in 0..n {
        if !left[y] {
            longest = longest.max(depth[y].unwrap() + 1);
        }
    }
    for y in 0..n {
        if left[y] {
            continue;
        }
        for &x in &preds[y] {
            // x is visited too, otherwise y would be downstream of a cycle
            if order[y] <= order[x] {
                return Err((
                    "respects-dependencies",
                    format!("{} depends on {} but layers are {} and {}", y, x, order[y], order[x]),
                ));
            }
        }
        if order[y] >= longest {
            return Err((
                "as-shallow-as-possible",
                format!("operation {} in layer {} but the longest chain has {} operations", y, order[y], longest),
            ));
        }
    }
    Ok(())
}

/// multiset equality of two lists
pub fn same_multiset(a: &[usize], b: &[usize]) -> bool {
    let mut x = a.to_vec();
    let mut y = b.to_vec();
    x.sort_unstable();
    y.sort_unstable();
    x == y
}

/// equality of two lists as sets
pub fn same_set(a: &[usize], b: &[usize]) -> bool {
    let mut x = a.to_vec();
    let mut y = b.to_vec();
    x.sort_unstable();
    x.dedup();
    y.sort_unstable();
    y.dedup();
    x == y
}
