//! Wrappers around public items of the library that no property statement mentions (deprecated aliases and
//! one free helper). `build.rs` probes the library's source for them; when one is gone the wrapper reports
//! absence and the monitors skip the corresponding checks instead of failing to build.
#![allow(deprecated)]

use crate::conv::*;
use open_hypergraphs::lax;

pub const HAS_QUOTIENT_WITNESS: bool = cfg!(has_quotient_witness);
pub const HAS_TO_DENSE: bool = cfg!(has_to_dense);

#[cfg(has_quotient_witness)]
pub fn quotient_witness<O: Clone + PartialEq, A: Clone>(f: &mut LOh<O, A>) -> Option<Result<FF, FF>> {
    Some(f.quotient_witness())
}
#[cfg(not(has_quotient_witness))]
pub fn quotient_witness<O: Clone + PartialEq, A: Clone>(_f: &mut LOh<O, A>) -> Option<Result<FF, FF>> {
    None
}

#[cfg(has_to_open_hypergraph)]
pub fn to_open_hypergraph<O: Clone + PartialEq, A: Clone>(f: LOh<O, A>) -> Option<SOh<O, A>> {
    Some(f.to_open_hypergraph())
}
#[cfg(not(has_to_open_hypergraph))]
pub fn to_open_hypergraph<O: Clone + PartialEq, A: Clone>(_f: LOh<O, A>) -> Option<SOh<O, A>> {
    None
}

/// Some(()) when the alias exists and was called
#[cfg(has_delete_edge_alias)]
pub fn delete_edge_alias<O, A>(h: &mut lax::Hypergraph<O, A>, ids: &[lax::EdgeId]) -> Option<()> {
    h.delete_edge(ids);
    Some(())
}
#[cfg(not(has_delete_edge_alias))]
pub fn delete_edge_alias<O, A>(_h: &mut lax::Hypergraph<O, A>, _ids: &[lax::EdgeId]) -> Option<()> {
    None
}

#[cfg(has_to_dense)]
pub fn to_dense(sparse: &[usize]) -> Option<(Vec<usize>, usize)> {
    Some(open_hypergraphs::array::vec::to_dense(sparse))
}
#[cfg(not(has_to_dense))]
pub fn to_dense(_sparse: &[usize]) -> Option<(Vec<usize>, usize)> {
    None
}

#[cfg(has_lax_functor_shim)]
pub fn lax_functor_shim<F, O1, A1, O2, A2>(functor: &F, f: &LOh<O1, A1>) -> Option<LOh<O2, A2>>
where
    F: lax::functor::Functor<O1, A1, O2, A2> + Clone,
    O1: Clone + PartialEq,
    A1: Clone,
    O2: Clone + PartialEq,
    A2: Clone,
{
    Some(lax::functor::define_map_arrow(functor, f))
}
#[cfg(not(has_lax_functor_shim))]
pub fn lax_functor_shim<F, O1, A1, O2, A2>(_functor: &F, _f: &LOh<O1, A1>) -> Option<LOh<O2, A2>>
where
    F: lax::functor::Functor<O1, A1, O2, A2> + Clone,
    O1: Clone + PartialEq,
    A1: Clone,
    O2: Clone + PartialEq,
    A2: Clone,
{
    None
}
