#![allow(dead_code, unused_imports)]
//! ohmon: runtime monitors for open-hypergraphs. One process = one shard of one monitor in one
//! build profile. See /verif/DESIGN.md.

mod adv;
mod arrcheck;
mod compat;
mod conv;
mod ctx;
mod evalx;
mod functors;
mod gen;
mod iso;
mod model;
mod optics;
mod oracle;
mod primer;
mod mon;
mod rng;

use ctx::*;
use mon::common::Monitor;
use rng::Rng;
use serde_json::json;
use std::io::Write;
use std::sync::atomic::Ordering;
use std::time::Instant;

fn arg(args: &[String], name: &str) -> Option<String> {
    args.iter().position(|a| a == name).and_then(|i| args.get(i + 1).cloned())
}

/// the process-state primer (primer.rs) runs before the first case of a shard and then every 8192 cases
fn primer_due(idx: u64, from: u64, _count: u64) -> bool {
    !cfg!(miri) && std::env::var_os("VERIF_NO_PRIMER").is_none() && (idx - from) % 8192 == 0
}

fn main() {
    let args: Vec<String> = std::env::args().collect();
    if args.len() >= 2 && args[1] == "list" {
        for m in mon::all() {
            println!("{} {}", m.id(), m.corpus_len());
        }
        return;
    }
    if args.len() < 3 {
        eprintln!("usage: ohmon run <id> --seed S --from A --count N --profile P --out FILE [--hashes FILE] [--thorough] [--journal] [--limit-s S]");
        eprintln!("       ohmon case <id> --seed S --case I --profile P [--thorough]");
        eprintln!("       ohmon list");
        std::process::exit(2);
    }
    let cmd = args[1].as_str();
    if cmd == "list" {
        for m in mon::all() {
            println!("{} {}", m.id(), m.corpus_len());
        }
        return;
    }
    let id = args[2].clone();
    let monitor = match mon::all().into_iter().find(|m| m.id() == id) {
        Some(m) => m,
        None => {
            eprintln!("unknown monitor {}", id);
            std::process::exit(2);
        }
    };
    let seed: u64 = arg(&args, "--seed").and_then(|s| s.parse().ok()).unwrap_or(1);
    let profile = arg(&args, "--profile").unwrap_or_else(|| "unknown".into());
    let thorough = args.iter().any(|a| a == "--thorough");
    let journal = args.iter().any(|a| a == "--journal");
    let limit_s: u64 = arg(&args, "--limit-s").and_then(|s| s.parse().ok()).unwrap_or(20);
    install_panic_hook();

    // watchdog: a single case running longer than the limit aborts the process with exit code 3
    let t0 = Instant::now();
    if !cfg!(miri) {
        let t0 = t0;
        std::thread::spawn(move || loop {
            std::thread::sleep(std::time::Duration::from_millis(250));
            let idx = CASE_IDX.load(Ordering::SeqCst);
            if idx == u64::MAX {
                continue;
            }
            let start = CASE_START_MS.load(Ordering::SeqCst);
            let now = t0.elapsed().as_millis() as u64;
            if now.saturating_sub(start) > limit_s * 1000 {
                eprintln!("HANG case={} after {} ms", idx, now - start);
                let _ = std::io::stderr().flush();
                std::process::exit(3);
            }
        });
    }

    let mut ctx = Ctx::new(&id, &profile, seed, thorough);

    if monitor.uses_iso() {
        match iso::self_test(seed) {
            Ok(n) => ctx.count_n("selftest:iso_checks", n),
            Err(e) => {
                ctx.inconclusive(&format!("iso self-test failed: {}", e));
            }
        }
    }

    let (from, count) = if cmd == "case" {
        ctx.verbose = true;
        (arg(&args, "--case").and_then(|s| s.parse().ok()).unwrap_or(0u64), 1u64)
    } else {
        (
            arg(&args, "--from").and_then(|s| s.parse().ok()).unwrap_or(0u64),
            arg(&args, "--count").and_then(|s| s.parse().ok()).unwrap_or(100u64),
        )
    };

    // companion thread (DESIGN 1.2): the same index range, in reverse order, on a second thread of this process
    // with its own context, for as long as the main loop runs. The library documents no process-wide state, so
    // what a call returns must not depend on what another thread is computing or on what was computed before;
    // the companion's oracle decisions count like any other and its violations are merged below.
    let companion_on = args.iter().any(|a| a == "--companion") && cmd != "case" && !journal && !cfg!(miri);
    let stop = std::sync::Arc::new(std::sync::atomic::AtomicBool::new(false));
    let companion = if companion_on {
        let (id2, profile2, stop2) = (id.clone(), profile.clone(), stop.clone());
        std::thread::Builder::new()
            .stack_size(8 << 20)
            .spawn(move || {
                let mon2 = mon::all().into_iter().find(|m| m.id() == id2).unwrap();
                let mut c2 = Ctx::new(&id2, &profile2, seed, thorough);
                let mut idx = from + count;
                while idx > from && !stop2.load(Ordering::SeqCst) {
                    idx -= 1;
                    if primer_due(idx, from, count) {
                        primer::prime(&mut c2, &mut Rng::for_case(seed, "primer-companion", idx));
                    }
                    c2.case = idx;
                    c2.cases += 1;
                    let mut r = Rng::for_case(seed, &id2, idx);
                    let res = guard(|| mon2.run_case(idx, &mut r, &mut c2));
                    if let Err(p) = res {
                        if p.in_library() {
                            c2.evaluations += 1;
                            c2.violation(
                                &format!("unguarded-call/returns/{}/any", p.sig()),
                                json!({"observed": p.json(), "expected": "the call returns", "thread": "companion"}),
                            );
                        } else {
                            c2.inconclusive(&format!("harness panic (companion thread): {} at {}:{}", p.msg, p.file, p.line));
                        }
                    }
                }
                c2
            })
            .ok()
    } else {
        None
    };

    for idx in from..from + count {
        if cmd != "case" && primer_due(idx, from, count) {
            primer::prime(&mut ctx, &mut Rng::for_case(seed, "primer", idx));
        }
        if journal {
            eprintln!("JOURNAL case={}", idx);
            let _ = std::io::stderr().flush();
        }
        CASE_START_MS.store(t0.elapsed().as_millis() as u64, Ordering::SeqCst);
        CASE_IDX.store(idx, Ordering::SeqCst);
        ctx.case = idx;
        ctx.cases += 1;
        let mut r = Rng::for_case(seed, &id, idx);
        let res = guard(|| monitor.run_case(idx, &mut r, &mut ctx));
        // a panic that escaped every guard is a harness error (or a library panic reached through
        // harness conversion code): inconclusive, never a violation
        if let Err(p) = res {
            if p.in_library() {
                // raised inside the library's own source by a call the monitor made with arguments it
                // holds to be valid (history steps, conversions of earlier results): the call did not
                // return, which every property forbids on valid arguments
                ctx.evaluations += 1;
                ctx.outcome("panic");
                ctx.violation(
                    &format!("unguarded-call/returns/{}/any", p.sig()),
                    json!({"observed": p.json(), "expected": "the call returns"}),
                );
            } else {
                ctx.inconclusive(&format!("harness panic: {} at {}:{}", p.msg, p.file, p.line));
            }
            if ctx.verbose {
                eprintln!("HARNESS-PANIC case={} {} at {}:{}", idx, p.msg, p.file, p.line);
            }
        }
        CASE_IDX.store(u64::MAX, Ordering::SeqCst);
    }

    stop.store(true, Ordering::SeqCst);
    if let Some(h) = companion {
        match h.join() {
            Ok(c2) => {
                ctx.count_n("concurrent:companion_cases", c2.cases);
                ctx.count_n("concurrent:companion_oracle_decisions", c2.evaluations);
                ctx.evaluations += c2.evaluations;
                for mut v in c2.violations {
                    if let Some(sig) = v["sig"].as_str().map(|s| s.to_string()) {
                        let n = ctx.viol_sigs.entry(sig).or_insert(0);
                        *n += 1;
                        if *n <= 3 && ctx.violations.len() < 200 {
                            v["thread"] = json!("companion (same index range in reverse order, concurrently with the main loop)");
                            ctx.violations.push(v);
                        }
                    }
                }
                for (k, n) in c2.incon {
                    *ctx.incon.entry(k).or_insert(0) += n;
                }
            }
            Err(_) => ctx.inconclusive("companion thread panicked outside every guard"),
        }
    }

    let mut rep = ctx.report();
    rep["from"] = json!(from);
    rep["count"] = json!(count);
    rep["wall_s"] = json!(t0.elapsed().as_secs_f64());
    rep["rule"] = json!(monitor.rule());
    rep["corpus_len"] = json!(monitor.corpus_len());
    rep["floors"] = json!(monitor
        .floors()
        .into_iter()
        .map(|(k, v)| (k.to_string(), v))
        .collect::<std::collections::BTreeMap<String, u64>>());

    if let Some(hp) = arg(&args, "--hashes") {
        let mut bytes = Vec::with_capacity(ctx.distinct.len() * 8);
        for h in &ctx.distinct {
            bytes.extend_from_slice(&h.to_le_bytes());
        }
        std::fs::write(&hp, bytes).expect("write hashes");
    }
    let text = serde_json::to_string(&rep).unwrap();
    match arg(&args, "--out") {
        Some(p) => std::fs::write(&p, text).expect("write report"),
        None => println!("{}", serde_json::to_string_pretty(&rep).unwrap()),
    }
}
