//! C07 Array primitives of the Vec backend meet their element-wise contract.

use super::common::*;
use crate::ctx::*;
use crate::model::{components, same_partition};
use crate::rng::Rng;
use crate::compat::to_dense;
use open_hypergraphs::array::vec::{connected_components, VecArray, VecKind};
use serde_json::json;

crate::array_contract_checks!(vecchk, VecKind, VecArray);

/// number of long-chain shapes in the corpus
const DEEP: u64 = 6;

pub struct C07;

/// all arrays of length <= 4 over values <= 3, in a fixed order
fn small_array(mut idx: u64) -> Option<Vec<usize>> {
    for len in 0..=4u32 {
        let count = 4u64.pow(len);
        if idx < count {
            let mut v = vec![];
            for _ in 0..len {
                v.push((idx % 4) as usize);
                idx /= 4;
            }
            return Some(v);
        }
        idx -= count;
    }
    None
}

pub const EXHAUSTIVE: u64 = 1 + 4 + 16 + 64 + 256;

impl Monitor for C07 {
    fn id(&self) -> &'static str {
        "C07"
    }
    fn rule(&self) -> &'static str {
        "cases: exhaustively every array of length <=4 over values <=3 (341 arrays) through all unary primitives and every in-bounds range form (.., a.., ..b, a..b, ..=b, a..=b), \
         then seeded arrays up to length 6 (200 in the thorough tier) for the multi-argument primitives: concatenate, fill, gather, scatter, scatter_assign(_constant), set_range, \
         scatter_sub_assign, arange, repeat, quot_rem, mul_constant_add, +, -, scalar + array, segmented_sum, sort_by, connected_components / to_dense on edge lists with self loops and \
         parallel edges; usize and String (non-Copy) element types for the generic primitives. Oracle: scalar definitions; open choices accepted as the contract says (argsort = any sorting \
         permutation, component labels = any dense numbering with the right partition, sparse_bincount = each value once in any order, scatter = any written value at repeated indices, zero() \
         = the zero indices as a set). non-trivial = non-empty input array; distinct = hash of the inputs. Also: get / get_range / set_range (all six range forms, excluded start bound, bounds anywhere in the array) / scatter_assign / scatter_assign_constant / sort_by on String elements, bincount at the tight size, irregular graphs of up to 700 nodes for connected components and dense numbering also for the tournament shapes."
    }
    fn corpus_len(&self) -> u64 {
        EXHAUSTIVE + 6 + DEEP
    }
    fn floors(&self) -> Vec<(&'static str, u64)> {
        let mut v = vec![
            ("class:empty_array", 1),
            ("class:all_equal_keys", 5),
            ("class:exhaustive_small_array", EXHAUSTIVE),
            ("class:repeat_count_0", 20),
            ("class:single_component", 20),
            ("class:all_isolated", 20),
            ("class:self_loop_edge", 20),
            ("class:scatter_of_empty_array", 5),
            ("class:tournament_merge_order", 6),
            ("class:long_merge_chain_on_a_thread_stack", 6),
            ("class:arrays_up_to_40", 500),
            ("class:arrays_of_several_hundred_elements", 100),
            ("class:repeat_run_longer_than_16", 50),
            ("class:components_of_a_graph_with_more_than_16_nodes", 100),
            ("api:get_range<T>", 341),
            ("api:set_range", 341),
            ("api:scatter_assign<T>", 100),
            ("api:sort_by<T>", 100),
            ("api:gather", 100),
            ("api:scatter", 100),
            ("api:scatter_assign", 100),
            ("api:scatter_sub_assign", 100),
            ("api:repeat", 100),
            ("api:segmented_sum", 100),
            ("api:sort_by", 100),
            ("api:connected_components", 200),

            ("api:sparse_bincount", 341),
            ("api:argsort", 341),
            ("api:to_range", 341),
        ];
        if crate::compat::HAS_TO_DENSE {
            v.push(("api:to_dense", 100));
        }
        v
    }
    fn run_case(&self, idx: u64, r: &mut Rng, ctx: &mut Ctx) {
        if let Some(v) = small_array(idx) {
            ctx.class("exhaustive_small_array");
            if !v.is_empty() {
                ctx.nontrivial(&v);
            }
            vecchk::unary(ctx, &v, "");
            if idx % 40 == 0 {
                ctx.sample("exhaustive_small_array", || json!({"array": v}));
            }
            return;
        }
        if idx >= EXHAUSTIVE + 6 && idx < EXHAUSTIVE + 6 + DEEP {
            // long chains and stars of merges in every orientation, on a thread with the default 2 MiB stack: an
            // implementation whose trees degenerate into paths recurses 4*10^5 deep
            let n = if cfg!(miri) { 300usize } else { 400_000usize };
            let shape = (idx - EXHAUSTIVE - 6) as usize;
            let (src, tgt): (Vec<usize>, Vec<usize>) = match shape {
                0 => ((0..n - 1).map(|i| i + 1).collect(), (0..n - 1).collect()),          // (i+1, i), ascending i
                1 => ((0..n - 1).collect(), (0..n - 1).map(|i| i + 1).collect()),          // (i, i+1)
                2 => ((0..n - 1).rev().map(|i| i + 1).collect(), (0..n - 1).rev().collect()), // (i+1, i), descending i
                3 => ((0..n - 1).rev().collect(), (0..n - 1).rev().map(|i| i + 1).collect()),
                4 => ((0..n - 1).collect(), vec![n - 1; n - 1]),                           // star (i, c)
                _ => (vec![n - 1; n - 1], (0..n - 1).collect()),                           // star (c, i)
            };
            ctx.class("long_merge_chain_on_a_thread_stack");
            use open_hypergraphs::array::NaturalArray;
            let res = on_thread_stack(|| connected_components(&src, &tgt, n));
            if let Some((lab, k)) = must_return(ctx, "vec::connected_components", "long_chain", res, || json!({"n": n, "shape": shape})) {
                ctx.check(k == 1 && lab.len() == n && lab.iter().all(|&l| l == 0), "vec::connected_components/partition-equals-connectivity/value/long_chain", || json!({"n": n, "shape": shape, "observed_k": k}));
            }
            let (s2, t2) = (VecArray(src.clone()), VecArray(tgt.clone()));
            let res = on_thread_stack(|| <VecArray<usize> as NaturalArray<VecKind>>::connected_components(&s2, &t2, n));
            if let Some((lab, k)) = must_return(ctx, "connected_components", "long_chain", res, || json!({"n": n, "shape": shape})) {
                ctx.check(k == 1 && lab.0.len() == n && lab.0.iter().all(|&l| l == 0), "connected_components/partition-equals-connectivity/value/long_chain", || json!({"n": n, "shape": shape, "observed_k": k}));
            }
            ctx.nontrivial(&("long_chain", shape));
            ctx.sample("long_merge_chain", || json!({"n": n, "shape": shape}));
            return;
        }
        if idx < EXHAUSTIVE + 6 || (ctx.thorough && r.chance(1, 3000)) {
            // deep union-find trees: 2^k points merged in tournament order
            let k = if cfg!(miri) { 4 } else if idx < EXHAUSTIVE + 6 { 9 + (idx - EXHAUSTIVE) as u32 % 3 } else { 9 + r.below(4) as u32 };
            let (n, pairs) = crate::gen::tournament_pairs(r, k);
            // leave a few points unmerged by dropping the last level for half of the cases
            let pairs: Vec<(usize, usize)> = if idx % 2 == 0 { pairs } else { pairs[..pairs.len() - 1].to_vec() };
            let (src, tgt): (Vec<usize>, Vec<usize>) = pairs.iter().cloned().unzip();
            let (cls, kk) = components(n, &pairs);
            ctx.class("tournament_merge_order");
            let res = guard(|| connected_components(&src, &tgt, n));
            if let Some((lab, k2)) = must_return(ctx, "vec::connected_components", "tournament", res, || json!({"n": n, "pairs": "tournament order"})) {
                let dense = lab.len() == n && lab.iter().all(|&l| l < k2) && { let mut seen = vec![false; k2]; lab.iter().for_each(|&l| if l < k2 { seen[l] = true }); seen.iter().all(|&b| b) };
                ctx.check(k2 == kk && dense && same_partition(&lab, &cls), "vec::connected_components/partition-equals-connectivity/value/tournament", || {
                    json!({"n": n, "observed_k": k2, "expected_k": kk})
                });
            }
            use open_hypergraphs::array::NaturalArray;
            let res = guard(|| <VecArray<usize> as NaturalArray<VecKind>>::connected_components(&VecArray(src.clone()), &VecArray(tgt.clone()), n));
            if let Some((lab, k2)) = must_return(ctx, "connected_components", "tournament", res, || json!({"n": n})) {
                let dense = lab.0.len() == n && lab.0.iter().all(|&l| l < k2) && { let mut seen = vec![false; k2]; lab.0.iter().for_each(|&l| if l < k2 { seen[l] = true }); seen.iter().all(|&b| b) };
                ctx.check(k2 == kk && dense && same_partition(&lab.0, &cls), "connected_components/partition-equals-connectivity/value/tournament", || json!({"n": n, "observed_k": k2, "expected_k": kk}));
            }
            ctx.nontrivial(&(n, &pairs));
            ctx.sample("tournament_merge_order", || json!({"n": n, "pairs": pairs.len()}));
            return;
        }
        if r.chance(1, 8) {
            // the Vec-specific free functions
            let wide = r.chance(1, 6);
            let n = if wide { r.small(120) } else { r.small(8) };
            let ne = if n == 0 { 0 } else if wide { r.below(2 * n + 1) } else { r.small(8) };
            let src = r.vec_below(ne, n.max(1));
            let tgt = r.vec_below(ne, n.max(1));
            let input = json!({"sources": src, "targets": tgt, "n": n});
            ctx.nontrivial(&(&src, &tgt, n));
            let pairs: Vec<(usize, usize)> = src.iter().cloned().zip(tgt.iter().cloned()).collect();
            let (cls, k) = components(n, &pairs);
            let res = guard(|| connected_components(&src, &tgt, n));
            if let Some((lab, kk)) = must_return(ctx, "vec::connected_components", "any", res, || input.clone()) {
                let dense = lab.iter().all(|&l| l < kk) && (0..kk).all(|c| lab.contains(&c));
                ctx.check(kk == k && dense && same_partition(&lab, &cls), "vec::connected_components/partition-equals-connectivity/value/any", || {
                    json!({"input": input, "observed": lab, "observed_k": kk, "expected_partition": cls})
                });
            }
            let sparse: Vec<usize> = { let m = if wide { r.small(300) } else { r.small(8) }; r.vec_below(m, if wide { 1000 } else { 20 }) };
            let res = guard(|| to_dense(&sparse));
            if let Some(Some((dense, kk))) = must_return(ctx, "to_dense", "any", res, || json!({"sparse": sparse})) {
                let mut d = sparse.clone();
                d.sort();
                d.dedup();
                let ok = kk == d.len() && dense.len() == sparse.len() && dense.iter().all(|&x| x < kk.max(1)) && same_partition(&dense, &sparse);
                ctx.check(ok, "to_dense/dense-renumbering/value/any", || json!({"sparse": sparse, "observed": dense, "observed_k": kk}));
            }
            ctx.sample("free_functions", || input.clone());
            return;
        }
        if let Some(key) = vecchk::random(ctx, r, "") {
            ctx.distinct.insert(key);
        }
        if idx % 997 == 0 {
            ctx.sample("random_multi_argument", || json!({"case": idx, "note": "inputs are regenerated from (seed, case) by `ohmon case C07`"}));
        }
    }
}
