//! C14 Optic transformation is well-typed, functorial and differentiates correctly.

use super::common::*;
use crate::conv::*;
use crate::ctx::*;
use crate::evalx::*;
use crate::gen::{self, OhParams};
use crate::model::*;
use crate::optics::*;
use crate::rng::Rng;
use open_hypergraphs::category::{Arrow, Monoidal};
use open_hypergraphs::lax::optic::Optic as LaxOpticTrait;
use open_hypergraphs::strict::functor::Functor;
use serde_json::json;

pub struct C14;

type EL = (u64, u32, u8);
fn eval_form(p: &PD) -> POh<u32, EL> {
    POh {
        w: p.w.clone(),
        e: p.e.iter().enumerate().map(|(k, e)| PEdge { l: (e.l, k as u32, e.t.len() as u8), s: e.s.clone(), t: e.t.clone() }).collect(),
        s: p.s.clone(),
        t: p.t.clone(),
    }
}

impl C14 {
    /// typing + structure + adaptation + monogamy on one diagram
    fn structure(&self, ctx: &mut Ctx, class: &str, spec: &OSpec, f: &PD) -> Option<(PD, PD)> {
        let input = || json!({"optic": format!("{:?}", spec), "f": show(f)});
        let (a, b) = (f.src_type(), f.tgt_type());
        for o in f.w.iter() {
            if spec.fobj(o).is_empty() || spec.robj(o).is_empty() {
                ctx.class("object_with_empty_F_or_R_image");
            }
        }
        if f.e.iter().any(|e| spec.residual(&e.l).len() >= 2) {
            ctx.class("residual_of_length_ge2");
        }
        if f.e.iter().any(|e| spec.residual(&e.l).is_empty()) {
            ctx.class("empty_residual");
        }
        let want = match spec.optic(f) {
            Ok(w) => w,
            Err(e) => {
                ctx.inconclusive(&format!("model optic failed: {:?}", e));
                return None;
            }
        };
        let lf = to_strict(f);
        let optic = strict_optic(spec);
        // map_object: interleaving per generating object
        if let Some(mo) = lib(ctx, "Optic::map_object", class, &input, || optic.map_object(&sf(a.clone()))) {
            match segs_to_lists(&mo) {
                Ok(l) => {
                    let want_l: Vec<Vec<u32>> = a.iter().map(|o| { let mut v = spec.fobj(o); v.extend(spec.robj(o)); v }).collect();
                    ctx.check(l == want_l, "Optic::map_object/F(o)-then-R(o)-per-object/value/any", || json!({"input": input(), "observed": l, "expected": want_l}));
                }
                Err(e) => {
                    ctx.check(false, "Optic::map_object/well-formed/value/any", || json!({"input": input(), "observed": e}));
                }
            }
        }
        // map_arrow: exact type lists, then structure up to isomorphism
        let img = lib(ctx, "Optic::map_arrow", class, &input, || optic.map_arrow(&lf))?;
        let got = walk(ctx, "Optic::map_arrow", class, &img, &input)?;
        let ty = got.src_type() == spec.interleaved(&a) && got.tgt_type() == spec.interleaved(&b);
        if !ctx.check(ty, &format!("Optic::map_arrow/type-interleave(FA,RA)->interleave(FB,RB)/value/{}", class), || {
            json!({"input": input(), "observed": format!("{:?} -> {:?}", got.src_type(), got.tgt_type()), "expected": format!("{:?} -> {:?}", spec.interleaved(&a), spec.interleaved(&b))})
        }) {
            return None;
        }
        expect_iso(ctx, "Optic::map_arrow", "model-lens-substitution", class, &got, &want, &input);
        // map_operations on the whole batch of f's operations: the tensor of the model lenses, in order
        if !f.e.is_empty() {
            let labels: Vec<u64> = f.e.iter().map(|e| e.l).collect();
            let st: Vec<Vec<u32>> = f.e.iter().map(|e| e.s.iter().map(|&v| f.w[v]).collect()).collect();
            let tt: Vec<Vec<u32>> = f.e.iter().map(|e| e.t.iter().map(|&v| f.w[v]).collect()).collect();
            let ops = open_hypergraphs::operations::Operations::<open_hypergraphs::array::vec::VecKind, u32, u64>::new(sf(labels.clone()), segs_from_lists(&st), segs_from_lists(&tt));
            if let Some(ops) = ops {
                if f.e.len() >= 2 {
                    ctx.class("map_operations_on_a_batch_of_several");
                }
                let mut wantb: PD = POh::empty();
                for k in 0..f.e.len() {
                    wantb = wantb.tensor(&spec.lens(&labels[k], &st[k], &tt[k]));
                }
                if let Some(bimg) = lib(ctx, "Optic::map_operations", class, &input, || optic.map_operations(ops)) {
                    expect_diagram(ctx, "Optic::map_operations", "tensor-of-the-model-lenses", class, &bimg, &wantb, &input);
                }
            } else {
                ctx.inconclusive("Operations::new rejected a well-formed batch");
            }
        }
        // adapt: F A ● R B -> F B ● R A
        let ad = lib(ctx, "Optic::adapt", class, &input, || optic.adapt(&img, &sf(a.clone()), &sf(b.clone())))?;
        let gad = walk(ctx, "Optic::adapt", class, &ad, &input)?;
        let mut ws = spec.fty(&a);
        ws.extend(spec.rty(&b));
        let mut wt = spec.fty(&b);
        wt.extend(spec.rty(&a));
        if ctx.check(gad.src_type() == ws && gad.tgt_type() == wt, &format!("Optic::adapt/type-FA●RB->FB●RA/value/{}", class), || {
            json!({"input": input(), "observed": format!("{:?} -> {:?}", gad.src_type(), gad.tgt_type()), "expected": format!("{:?} -> {:?}", ws, wt)})
        }) {
            expect_iso(ctx, "Optic::adapt", "re-bent-interfaces", class, &gad, &spec.adapt(&want, &a, &b), &input);
        }
        // monogamy is preserved (generator images of both families are monogamous)
        if monogamous(f) {
            ctx.class("monogamous_argument");
            ctx.check(monogamous(&gad), &format!("Optic::adapt/monogamous-if-argument-is/value/{}", class), || json!({"input": input(), "observed": show(&gad)}));
        }
        // lax entry points: on the quotient-free presentation and on one that still carries pending
        // unifications (the optic of the quotiented argument either way)
        let lo = LaxOptic(spec.clone());
        let exploded = { let e = explode(f); let np = crate::rng::Rng(hash_of(&(spec, f))).perm(e.w.len()); renumber_lax(&e, &np) };
        if !exploded.q.is_empty() {
            ctx.class("lax_argument_with_pending_unifications");
        }
        // a third presentation: the term was edited before being handed over -- a scratch node was added, unified
        // with a node of the term and deleted again (the pending pair must go with it), as a user cutting something
        // out of a term does
        let edited: Option<(PLax<u32, u64>, usize)> = if exploded.w.is_empty() { None } else {
            let mut e = exploded.clone();
            let x = (hash_of(&(spec, f)) % e.w.len() as u64) as usize;
            e.w.push(e.w[x]);
            let z = e.w.len() - 1;
            // inserted in the middle of the pair list so that later pairs would slide if only one column were filtered
            let at = e.q.len() / 2;
            e.q.insert(at, if z % 2 == 0 { (x, z) } else { (z, x) });
            Some((e, z))
        };
        let mut presentations: Vec<(&str, PLax<u32, u64>, Option<usize>)> = vec![(class, f.to_lax(), None), ("pending_argument", exploded.clone(), None)];
        if let Some((e, z)) = edited {
            presentations.push(("edited_argument", e, Some(z)));
        }
        let assembled: Option<LOh<u32, u64>> = guard(|| {
            use open_hypergraphs::category::Arrow;
            let x = to_lax(&exploded);
            let ida = open_hypergraphs::lax::OpenHypergraph::<u32, u64>::identity(a.clone());
            let idb = open_hypergraphs::lax::OpenHypergraph::<u32, u64>::identity(b.clone());
            Arrow::compose(&ida, &Arrow::compose(&x, &idb)?)
        }).ok().flatten();
        for (cls2, px, delete) in presentations {
            let mut lx = to_lax(&px);
            if cls2 == "pending_argument" {
                if let Some(asm) = &assembled {
                    // (replaces the hand-made presentation by one the library's own lax composition produced)
                    ctx.class("lax_argument_assembled_by_right_nested_composition");
                    lx = asm.clone();
                }
            }
            if let Some(z) = delete {
                ctx.class("lax_argument_edited_by_deleting_an_endpoint_of_a_pending_pair");
                let inp0 = || json!({"optic": format!("{:?}", spec), "f": show_lax(&px), "delete_node": z});
                if lib(ctx, "delete_nodes", cls2, &inp0, || lx.delete_nodes(&[open_hypergraphs::lax::NodeId(z)])).is_none() {
                    continue;
                }
            }
            let inp = || json!({"optic": format!("{:?}", spec), "f": show_lax(&px)});
            let lx2 = lx.clone();
            if let Some(li) = lib(ctx, "lax::Optic::map_arrow", cls2, &inp, || lo.map_arrow(lx2)) {
                if let Some(pl) = walk_lax(ctx, "lax::Optic::map_arrow", cls2, &li, &inp) {
                    match pl.strict() {
                        Ok((g2, _)) => {
                            let ty = g2.src_type() == spec.interleaved(&a) && g2.tgt_type() == spec.interleaved(&b);
                            if ctx.check(ty, &format!("lax::Optic::map_arrow/type/value/{}", cls2), || json!({"input": inp(), "observed": show(&g2)})) {
                                expect_iso(ctx, "lax::Optic::map_arrow", "model-lens-substitution", cls2, &g2, &want, &inp);
                            }
                        }
                        Err(_) => {
                            ctx.check(false, &format!("lax::Optic::map_arrow/quotientable/value/{}", cls2), || json!({"input": inp(), "observed": show_lax(&pl)}));
                        }
                    }
                }
            }
            if let Some(la) = lib(ctx, "lax::Optic::map_adapted", cls2, &inp, || lo.map_adapted(lx)) {
                if let Some(pl) = walk_lax(ctx, "lax::Optic::map_adapted", cls2, &la, &inp) {
                    match pl.strict() {
                        Ok((g2, _)) => {
                            let ty = g2.src_type() == ws && g2.tgt_type() == wt;
                            if ctx.check(ty, &format!("lax::Optic::map_adapted/type/value/{}", cls2), || json!({"input": inp(), "observed": show(&g2)})) {
                                expect_iso(ctx, "lax::Optic::map_adapted", "re-bent-interfaces", cls2, &g2, &spec.adapt(&want, &a, &b), &inp);
                            }
                        }
                        Err(_) => {
                            ctx.check(false, &format!("lax::Optic::map_adapted/quotientable/value/{}", cls2), || json!({"input": inp(), "observed": show_lax(&pl)}));
                        }
                    }
                }
            }
        }
        Some((got, gad))
    }

    fn functoriality(&self, ctx: &mut Ctx, r: &mut Rng, spec: &OSpec) {
        let pa = OhParams { max_nodes: 4, max_edges: 2, max_arity: 2, max_iface: 2, node_labels: 2, edge_labels: 3 };
        let (mut f, mut g) = gen::composable_pair(r, &pa);
        if r.chance(1, 2) {
            gen::uniquify_edge_labels(&mut f);
            for (k, e) in g.e.iter_mut().enumerate() {
                e.l = 2000 + k as u64;
            }
        }
        let input = || json!({"optic": format!("{:?}", spec), "f": show(&f), "g": show(&g)});
        if !f.e.is_empty() || !g.e.is_empty() {
            ctx.nontrivial(&("functoriality", spec, &f, &g));
        }
        let optic = strict_optic(spec);
        let (lf, lg) = (to_strict(&f), to_strict(&g));
        let lhs = lib(ctx, "O(f;g)", "laws", &input, || lf.compose(&lg).map(|h| optic.map_arrow(&h))).flatten();
        let rhs = lib(ctx, "O(f);O(g)", "laws", &input, || optic.map_arrow(&lf).compose(&optic.map_arrow(&lg))).flatten();
        law(ctx, "optic-preserves-composition", "laws", lhs, rhs, &input);
        let lhs = lib(ctx, "O(f|g)", "laws", &input, || optic.map_arrow(&lf.tensor(&lg)));
        let rhs = lib(ctx, "O(f)|O(g)", "laws", &input, || optic.map_arrow(&lf).tensor(&optic.map_arrow(&lg)));
        law(ctx, "optic-preserves-tensor", "laws", lhs, rhs, &input);
        ctx.sample("functoriality", || input());
    }

    fn derivative(&self, ctx: &mut Ctx, class: &str, f: &PD, r: &mut Rng) {
        let spec = OSpec::Poly;
        let input = || json!({"circuit": show(f)});
        if f.e.iter().any(|e| e.l == MUL || e.l == COPY) {
            ctx.nontrivial(&("derivative", f));
        }
        // hostile classes observed by the model
        let deps = op_deps(f);
        if f.e.iter().enumerate().any(|(y, e)| e.l == MUL && deps[y].iter().any(|&x| f.e[x].l == MUL)) {
            ctx.class("two_multiplications_in_series");
        }
        if f.e.iter().any(|e| e.l == DISCARD && e.s.iter().any(|v| f.s.contains(v))) {
            ctx.class("discarded_input");
        }
        if f.e.iter().any(|e| (e.l >= CONST0 || e.l == ZERO) && e.t.iter().any(|v| f.t.contains(v))) {
            ctx.class("constant_output");
        }
        if f.e.is_empty() && f.w.is_empty() {
            ctx.class("empty_circuit");
        }
        let (_, adapted) = match self.structure(ctx, class, &spec, f) {
            Some(x) => x,
            None => return,
        };
        let (n, m) = (f.s.len(), f.t.len());
        for _ in 0..2 {
            let x: Vec<u64> = (0..n).map(|_| if r.chance(1, 4) { r.below(4) as u64 } else { r.next() }).collect();
            let dy: Vec<u64> = (0..m).map(|_| if r.chance(1, 4) { 1 } else { r.next() }).collect();
            let (want_y, want_dx) = match reverse_mode(f, &x, &dy) {
                Some(v) => v,
                None => {
                    ctx.inconclusive("generated circuit is cyclic");
                    return;
                }
            };
            let mut inp = x.clone();
            inp.extend(dy.iter().cloned());
            let run = run_eval(&to_strict(&eval_form(&adapted)), inp, &|l: &EL, xs| poly_apply(&l.0, xs, l.2 as usize));
            ctx.api("eval(adapted optic)");
            ctx.count("events:derivative_evaluations");
            let mut want = want_y.clone();
            want.extend(want_dx.iter().cloned());
            let ok = matches!(&run.result, Ok(Some(v)) if *v == want);
            ctx.check(ok, &format!("eval(adapted)/returns-(f(x),J^T·dy)/value/{}", class), || {
                json!({"input": input(), "x": x, "dy": dy, "adapted": show(&adapted),
                       "observed": format!("{:?}", run.result.as_ref().map_err(|e| e.msg.clone())), "expected_f(x)": want_y, "expected_JT_dy": want_dx})
            });
        }
        ctx.sample(class, || json!({"circuit": show(f)}));
    }
}

fn corpus() -> Vec<(&'static str, PD)> {
    let e = |l: u64, s: &[usize], t: &[usize]| PEdge { l, s: s.to_vec(), t: t.to_vec() };
    vec![
        ("empty_circuit", POh::empty()),
        ("wires_only", POh { w: vec![0, 0], e: vec![], s: vec![0, 1], t: vec![1, 0] }),
        ("square", POh { w: vec![0; 4], e: vec![e(COPY, &[0], &[1, 2]), e(MUL, &[1, 2], &[3])], s: vec![0], t: vec![3] }),
        ("chain_rule_mul_mul", POh { w: vec![0; 5], e: vec![e(MUL, &[0, 1], &[3]), e(MUL, &[3, 2], &[4])], s: vec![0, 1, 2], t: vec![4] }),
        ("discarded_input", POh { w: vec![0; 3], e: vec![e(DISCARD, &[1], &[]), e(NEG, &[0], &[2])], s: vec![0, 1], t: vec![2] }),
        ("constant_output", POh { w: vec![0; 3], e: vec![e(CONST0 + 5, &[], &[1]), e(ADD, &[0, 1], &[2])], s: vec![0], t: vec![2] }),
        ("constant_only_output", POh { w: vec![0; 1], e: vec![e(CONST0 + 3, &[], &[0])], s: vec![], t: vec![0] }),
        ("cube_shuffled", POh { w: vec![0; 7], e: vec![e(MUL, &[6, 3], &[0]), e(COPY, &[5], &[4, 3]), e(MUL, &[1, 4], &[6]), e(COPY, &[2], &[1, 5])], s: vec![2], t: vec![0] }),
    ]
}

impl Monitor for C14 {
    fn id(&self) -> &'static str {
        "C14"
    }
    fn uses_iso(&self) -> bool {
        true
    }
    fn rule(&self) -> &'static str {
        "cases: hostile circuits (empty, wires only, x^2, (xy)z chain rule, discarded input, constant added to an input, constant-only output, x^3 with shuffled numbering) then seeded (a) \
         monogamous acyclic circuits over {add, mul, neg, copy, discard, constants} with 0-4 inputs, 0-12 operations, random wiring and numbering: the optic of the standard reverse-derivative \
         lenses is built through strict Optic::map_arrow + adapt and lax map_arrow / map_adapted, and eval(adapted, (x, dy)) for random u64 x, dy must equal (f(x), J_f(x)^T dy) computed by an \
         independent reverse-mode sweep over Z/2^64; (b) a structural family with |F(o)|, |R(o)| in 0..2 and residual lists of length 0..2 carrying labels unique per operation, applied to \
         arbitrary small diagrams: exact type lists interleave(FA,RA) -> interleave(FB,RB) and FA●RB -> FB●RA, isomorphism with the model lens substitution (forward image, residual wires \
         identified with the matching reverse image, reverse wires bent) and its re-bent adaptation, monogamy preservation, O(f;g) = O(f);O(g) and O(f|g) = O(f)|O(g) through the API. \
         non-trivial = circuit with >=1 mul or copy, or a structural/functoriality instance with >=1 hyperedge; distinct = hash of the instance. Also: both lax entry points on arguments that still carry pending unifications, and Optic::map_operations called directly on the batch of the argument's operations (tensor of the model lenses)."
    }
    fn corpus_len(&self) -> u64 {
        corpus().len() as u64
    }
    fn floors(&self) -> Vec<(&'static str, u64)> {
        vec![
            ("events:derivative_evaluations", 500),
            ("class:two_multiplications_in_series", 30),
            ("class:discarded_input", 30),
            ("class:constant_output", 30),
            ("class:empty_circuit", 1),
            ("class:object_with_empty_F_or_R_image", 50),
            ("class:residual_of_length_ge2", 50),
            ("class:empty_residual", 50),
            ("class:monogamous_argument", 200),
            ("law:optic-preserves-composition", 50),
            ("law:optic-preserves-tensor", 50),
            ("api:lax::Optic::map_adapted", 200),
            ("api:lax::Optic::map_arrow", 200),
            ("api:Optic::adapt", 200),
            ("class:lax_argument_with_pending_unifications", 100),
            ("class:lax_argument_assembled_by_right_nested_composition", 100),
            ("class:lax_argument_edited_by_deleting_an_endpoint_of_a_pending_pair", 100),
            ("class:map_operations_on_a_batch_of_several", 100),
            ("api:Optic::map_operations", 200),
        ]
    }
    fn run_case(&self, idx: u64, r: &mut Rng, ctx: &mut Ctx) {
        let c = corpus();
        if (idx as usize) < c.len() {
            let (class, f) = &c[idx as usize];
            ctx.class(class);
            self.derivative(ctx, class, f, r);
            return;
        }
        match r.below(10) {
            0..=4 => {
                let big = ctx.thorough && r.chance(1, 4);
                let f = poly_circuit(r, 4, if big { 12 } else { 7 });
                self.derivative(ctx, "circuit", &f, r);
            }
            5..=7 => {
                let spec = OSpec::random_structural(r);
                let pa = OhParams { max_nodes: 5, max_edges: 3, max_arity: 3, max_iface: 3, node_labels: 2, edge_labels: 3 };
                let mut f = if r.chance(1, 3) { gen::monogamous_acyclic(r, 2, 3, &pa) } else { gen::oh(r, &pa) };
                if r.chance(1, 2) {
                    gen::uniquify_edge_labels(&mut f);
                }
                if !f.e.is_empty() {
                    ctx.nontrivial(&("structural", &spec, &f));
                }
                self.structure(ctx, "structural", &spec, &f);
                ctx.sample("structural", || json!({"optic": format!("{:?}", spec), "f": show(&f)}));
            }
            _ => {
                let spec = if r.chance(1, 4) { OSpec::Poly } else { OSpec::random_structural(r) };
                if spec == OSpec::Poly {
                    // functoriality on polynomial circuits
                    let f = poly_circuit(r, 2, 3);
                    let g = {
                        // a circuit with as many inputs as f has outputs
                        let mut g = poly_circuit(r, 0, 3);
                        let k = f.t.len();
                        let n = g.w.len();
                        g.w.extend(vec![0; k]);
                        g.s = (n..n + k).collect();
                        g.t.extend(n..n + k);
                        g
                    };
                    let input = || json!({"optic": "Poly", "f": show(&f), "g": show(&g)});
                    let optic = strict_optic(&spec);
                    let (lf, lg) = (to_strict(&f), to_strict(&g));
                    let lhs = lib(ctx, "O(f;g)", "laws", &input, || lf.compose(&lg).map(|h| optic.map_arrow(&h))).flatten();
                    let rhs = lib(ctx, "O(f);O(g)", "laws", &input, || optic.map_arrow(&lf).compose(&optic.map_arrow(&lg))).flatten();
                    law(ctx, "optic-preserves-composition", "laws_poly", lhs, rhs, &input);
                } else {
                    self.functoriality(ctx, r, &spec);
                }
            }
        }
    }
}
