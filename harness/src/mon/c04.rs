//! C04 Dagger and spiders give the hypergraph-category (Frobenius) structure.

use super::common::*;
use crate::conv::*;
use crate::ctx::*;
use crate::gen::{self, OhParams, P};
use crate::model::*;
use crate::rng::Rng;
use open_hypergraphs::category::{Arrow, Monoidal, Spider, SymmetricMonoidal};
use open_hypergraphs::lax;
use serde_json::json;

pub struct C04;

type S = SOh<u32, u64>;
type L = LOh<u32, u64>;

/// labelled cospan (s, t, w); legs may be non-injective / non-surjective
fn cospan(r: &mut Rng, max_nodes: usize, max_leg: usize) -> (Vec<usize>, Vec<usize>, Vec<u32>) {
    let n = r.small(max_nodes);
    let w: Vec<u32> = (0..n).map(|_| r.below(2) as u32).collect();
    let (a, b) = if n == 0 { (0, 0) } else { (r.small(max_leg), r.small(max_leg)) };
    (r.vec_below(a, n.max(1)), r.vec_below(b, n.max(1)), w)
}

/// second cospan whose source type matches `ty`
fn cospan_with_source(r: &mut Rng, ty: &[u32], max_extra: usize, max_leg: usize) -> (Vec<usize>, Vec<usize>, Vec<u32>) {
    let mut w: Vec<u32> = (0..r.small(max_extra)).map(|_| r.below(2) as u32).collect();
    let mut s = vec![];
    for &l in ty {
        let c: Vec<usize> = (0..w.len()).filter(|&i| w[i] == l).collect();
        if c.is_empty() || r.chance(1, 3) {
            w.push(l);
            s.push(w.len() - 1);
        } else {
            s.push(*r.pick(&c));
        }
    }
    let b = if w.is_empty() { 0 } else { r.small(max_leg) };
    let t = r.vec_below(b, w.len().max(1));
    (s, t, w)
}

impl C04 {
    fn dagger_laws(&self, ctx: &mut Ctx, r: &mut Rng) {
        let pa = if r.chance(1, 3) { OhParams::tiny() } else { OhParams::small() };
        let (mut f, mut g) = gen::composable_pair(r, &pa);
        if r.chance(1, 2) {
            gen::uniquify_edge_labels(&mut f);
            for (k, e) in g.e.iter_mut().enumerate() {
                e.l = 2000 + k as u64;
            }
        }
        let input = || json!({"f": show(&f), "g": show(&g)});
        if !f.e.is_empty() || !g.e.is_empty() {
            ctx.class("contravariance_with_edges");
            ctx.nontrivial(&("dagger", &f, &g));
        }
        let (lf, lg) = (to_strict(&f), to_strict(&g));
        // swap + untouched hypergraph, as raw data
        if let Some(d) = lib(ctx, "dagger", "any", &input, || lf.dagger()) {
            if let Some(pd) = walk(ctx, "dagger", "any", &d, &input) {
                expect_equal(ctx, "dagger", "swaps-interfaces-only", "any", &pd, &f.dagger(), &input);
            }
            if let Some(dd) = lib(ctx, "dagger", "any", &input, || d.dagger()) {
                if let Some(pdd) = walk(ctx, "dagger", "any", &dd, &input) {
                    ctx.count("law:dagger-involution");
                    expect_equal(ctx, "dagger", "involution", "any", &pdd, &f, &input);
                }
            }
        }
        // (f;g)† ≅ g†;f†
        let lhs = lib(ctx, "compose;dagger", "any", &input, || lf.compose(&lg).map(|x| x.dagger())).flatten();
        let rhs = lib(ctx, "dagger;compose", "any", &input, || lg.dagger().compose(&lf.dagger())).flatten();
        if let (Some(pl), Some(m)) = (law(ctx, "dagger-reverses-composition", "composable_pair", lhs, rhs, &input), f.compose(&g)) {
            expect_iso(ctx, "dagger", "reverses-composition-model", "composable_pair", &pl, &m.dagger(), &input);
        }
        // (f|g)† ≅ f†|g†
        let lhs = lib(ctx, "tensor;dagger", "any", &input, || lf.tensor(&lg).dagger());
        let rhs = lib(ctx, "dagger;tensor", "any", &input, || lf.dagger().tensor(&lg.dagger()));
        if let Some(pl) = law(ctx, "dagger-distributes-over-tensor", "pair", lhs, rhs, &input) {
            expect_iso(ctx, "dagger", "distributes-over-tensor-model", "pair", &pl, &f.tensor(&g).dagger(), &input);
        }
        // lax dagger, on an operand that still carries pending unifications
        let mut pl = f.to_lax();
        {
            let n = pl.w.len();
            if n > 0 {
                for _ in 0..r.small(3) {
                    let a = r.below(n);
                    let c: Vec<usize> = (0..n).filter(|&i| pl.w[i] == pl.w[a]).collect();
                    pl.q.push((a, *r.pick(&c)));
                }
            }
        }
        if !pl.q.is_empty() {
            ctx.class("lax_dagger_with_pending_unifications");
        }
        let lxp = to_lax(&pl);
        if let Some(d) = lib(ctx, "lax::dagger", "any", &input, || Spider::dagger(&lxp)) {
            let mut want = pl.clone();
            std::mem::swap(&mut want.s, &mut want.t);
            let got = from_lax_raw(&d);
            let norm = |q: &Vec<(usize, usize)>| { let mut v: Vec<(usize, usize)> = q.iter().map(|&(x, y)| (x.min(y), x.max(y))).collect(); v.sort(); v };
            // nodes, hyperedges and the swapped interfaces exactly; the pending pairs as a multiset of unordered pairs
            let same = got.w == want.w && got.e == want.e && got.s == want.s && got.t == want.t && norm(&got.q) == norm(&want.q);
            ctx.check(same && wf_lax(&d).is_empty(), "lax::dagger/swaps-interfaces-only/value/pending", || json!({"input": show_lax(&pl), "observed": show_lax(&got), "expected_exactly": show_lax(&want)}));
            if let Some(dd) = lib(ctx, "lax::dagger", "any", &input, || Spider::dagger(&d)) {
                let back = from_lax_raw(&dd);
                ctx.check(back.w == pl.w && back.e == pl.e && back.s == pl.s && back.t == pl.t && norm(&back.q) == norm(&pl.q), "lax::dagger/involution/value/pending", || json!({"input": show_lax(&pl), "observed": show_lax(&back)}));
            }
        }
        // lax contravariance and distribution over tensor: right operand with pending pairs, left without
        {
            let mut pg = g.to_lax();
            let n = pg.w.len();
            if n > 0 {
                for _ in 0..r.range(1, 3) {
                    let a = r.below(n);
                    let c: Vec<usize> = (0..n).filter(|&i| pg.w[i] == pg.w[a]).collect();
                    pg.q.push((a, *r.pick(&c)));
                }
            }
            let (xf, xg) = (to_lax(&f.to_lax()), to_lax(&pg));
            let inp = || json!({"f": show(&f), "g": show_lax(&pg)});
            let strictify = |ctx: &mut Ctx, api: &str, x: Option<L>| -> Option<P> {
                let x = x?;
                let pl = walk_lax(ctx, api, "lax", &x, &inp)?;
                match pl.strict() {
                    Ok((p, _)) => Some(p),
                    Err(_) => {
                        ctx.check(false, &format!("{}/quotientable/value/lax", api), || json!({"input": inp(), "observed": show_lax(&pl)}));
                        None
                    }
                }
            };
            let lhs = lib(ctx, "lax::(f;g)+", "lax", &inp, || Arrow::compose(&xf, &xg).map(|h| Spider::dagger(&h))).flatten();
            let rhs = lib(ctx, "lax::g+;f+", "lax", &inp, || Arrow::compose(&Spider::dagger(&xg), &Spider::dagger(&xf))).flatten();
            ctx.count("law:lax-dagger-reverses-composition");
            let (a, b) = (strictify(ctx, "lax::(f;g)+", lhs), strictify(ctx, "lax::g+;f+", rhs));
            if let (Some(a), Some(b)) = (a, b) {
                expect_iso(ctx, "lax::dagger", "reverses-composition", "lax", &a, &b, &inp);
                // and both agree with the model: dagger of the gluing of the quotiented operands
                if let Ok((gs, _)) = pg.strict() {
                    if let Some(m) = f.compose(&gs) {
                        expect_iso(ctx, "lax::dagger", "reverses-composition-model", "lax", &a, &m.dagger(), &inp);
                    }
                }
            }
            let lhs = lib(ctx, "lax::(f|g)+", "lax", &inp, || Spider::dagger(&xf.tensor(&xg)));
            let rhs = lib(ctx, "lax::f+|g+", "lax", &inp, || Spider::dagger(&xf).tensor(&Spider::dagger(&xg)));
            let (a, b) = (strictify(ctx, "lax::(f|g)+", lhs), strictify(ctx, "lax::f+|g+", rhs));
            if let (Some(a), Some(b)) = (a, b) {
                expect_iso(ctx, "lax::dagger", "distributes-over-tensor", "lax", &a, &b, &inp);
                if let Ok((gs, _)) = pg.strict() {
                    expect_iso(ctx, "lax::dagger", "distributes-over-tensor-model", "lax", &a, &f.tensor(&gs).dagger(), &inp);
                }
            }
        }
        let lxf = to_lax(&f.to_lax());
        if let Some(d) = lib(ctx, "lax::dagger", "any", &input, || Spider::dagger(&lxf)) {
            ctx.count("wf:walked");
            let got = from_lax_raw(&d);
            ctx.check(got == f.dagger().to_lax() && wf_lax(&d).is_empty(), "lax::dagger/swaps-interfaces-only/value/any", || json!({"input": input(), "observed": show_lax(&got)}));
            if let Some(dd) = lib(ctx, "lax::dagger", "any", &input, || Spider::dagger(&d)) {
                ctx.check(dd == lxf, "lax::dagger/involution/value/any", || json!({"input": input()}));
            }
        }
        ctx.sample("dagger", || input());
    }

    fn spider_construction(&self, ctx: &mut Ctx, r: &mut Rng, fixed: Option<(Vec<usize>, usize, Vec<usize>, usize, Vec<u32>)>) {
        // (s table, s codomain, t table, t codomain, w): codomains at |w|, |w|+1, |w|-1
        let (s, sc, t, tc, w) = fixed.unwrap_or_else(|| {
            let (s, t, w) = cospan(r, 5, 4);
            let n = w.len();
            let d = |r: &mut Rng| -> usize { match r.below(6) { 0 => n + 1, 1 => n.saturating_sub(1), _ => n } };
            let (sc, tc) = (d(r), d(r));
            // keep each leg a valid finite function of its own codomain
            let mut s: Vec<usize> = if sc == 0 { vec![] } else { s.into_iter().map(|v| v.min(sc - 1)).collect() };
            let mut t: Vec<usize> = if tc == 0 { vec![] } else { t.into_iter().map(|v| v.min(tc - 1)).collect() };
            // a leg that really points past the node list (entry = |w|), also over an empty node list
            if sc == n + 1 && r.chance(1, 2) {
                let k = r.below(s.len() + 1);
                s.insert(k, n);
            }
            if tc == n + 1 && r.chance(1, 2) {
                let k = r.below(t.len() + 1);
                t.insert(k, n);
            }
            (s, sc, t, tc, w)
        });
        let n = w.len();
        let input = || json!({"s": s, "s_codomain": sc, "t": t, "t_codomain": tc, "w": w});
        let accept = sc == n && tc == n;
        ctx.class(if accept { "spider_accept" } else { "spider_reject" });
        if s.iter().any(|&v| v >= n) || t.iter().any(|&v| v >= n) {
            ctx.class("spider_leg_entry_past_the_node_list");
        }
        if !accept {
            ctx.nontrivial(&("spider-reject", &s, sc, &t, tc, &w));
        }
        let want = POh::<u32, u64>::spider(s.clone(), t.clone(), w.clone());
        for api in ["OpenHypergraph::spider", "Spider::spider"] {
            let res = if api.starts_with("Open") {
                lib(ctx, api, "any", &input, || S::spider(ff(s.clone(), sc), ff(t.clone(), tc), sf(w.clone())))
            } else {
                lib(ctx, api, "any", &input, || <S as Spider<_>>::spider(ff(s.clone(), sc), ff(t.clone(), tc), sf(w.clone())))
            };
            if let Some(o) = res {
                ctx.check(o.is_some() == accept, &format!("{}/fails-iff-leg-misses-node-list/value/any", api), || json!({"input": input(), "observed_some": o.is_some(), "expected_some": accept}));
                if let (Some(sp), true) = (o, accept) {
                    // the spider with these legs, up to a renumbering of its nodes (the interfaces are compared
                    // position by position by the isomorphism search)
                    if let Some(p) = expect_diagram(ctx, api, "discrete-with-given-legs", "any", &sp, &want, &input) {
                        ctx.check(p.e.is_empty() && p.w.len() == w.len(), &format!("{}/discrete-over-the-given-nodes/value/any", api), || json!({"input": input(), "observed": show(&p)}));
                    }
                }
            }
        }
        // lax spider: same rejection condition
        for api in ["lax::spider", "lax::Spider::spider"] {
            let res = if api == "lax::spider" {
                lib(ctx, api, "any", &input, || L::spider(ff(s.clone(), sc), ff(t.clone(), tc), w.clone()))
            } else {
                lib(ctx, api, "any", &input, || <L as Spider<_>>::spider(ff(s.clone(), sc), ff(t.clone(), tc), w.clone()))
            };
            if let Some(o) = res {
                ctx.check(o.is_some() == accept, &format!("{}/fails-iff-leg-misses-node-list/value/any", api), || json!({"input": input(), "observed_some": o.is_some(), "expected_some": accept}));
                if let (Some(sp), true) = (o, accept) {
                    // a lax spider may be presented with pending unifications: judged after quotienting
                    if let Some(pl) = walk_lax(ctx, api, "any", &sp, &input) {
                        match pl.strict() {
                            Ok((p, _)) => {
                                let ty = p.src_type() == want.src_type() && p.tgt_type() == want.tgt_type() && p.e.is_empty() && pl.e.is_empty();
                                if ctx.check(ty, &format!("{}/discrete-with-given-legs/value/any", api), || json!({"input": input(), "observed": show_lax(&pl)})) {
                                    expect_iso(ctx, api, "discrete-with-given-legs", "any", &p, &want, &input);
                                }
                            }
                            Err(_) => {
                                ctx.check(false, &format!("{}/quotientable/value/any", api), || json!({"input": input(), "observed": show_lax(&pl)}));
                            }
                        }
                    }
                }
            }
        }
        // half spider = spider with identity target leg; fails exactly when the leg misses the node list
        {
            let hwant = POh::<u32, u64>::spider(s.clone(), (0..n).collect(), w.clone());
            let hs = lib(ctx, "half_spider", "any", &input, || <S as Spider<_>>::half_spider(ff(s.clone(), sc), sf(w.clone())));
            if let Some(hs) = hs {
                ctx.check(hs.is_some() == (sc == n), "half_spider/fails-iff-leg-misses-node-list/value/any", || json!({"input": input(), "observed_some": hs.is_some()}));
                if sc == n {
                    if let Some(h) = &hs {
                        if let Some(p) = walk(ctx, "half_spider", "any", h, &input) {
                            // discrete, legs (s, a bijection): compared up to isomorphism with the model
                            expect_iso(ctx, "half_spider", "is-spider-with-identity-leg-model", "any", &p, &hwant, &input);
                        }
                    }
                    let full = lib(ctx, "Spider::spider", "any", &input, || <S as Spider<_>>::spider(ff(s.clone(), sc), ff((0..n).collect(), n), sf(w.clone()))).flatten();
                    law(ctx, "half-spider-is-spider-with-identity-leg", "any", hs, full, &input);
                }
            }
            let lhs = lib(ctx, "lax::half_spider", "any", &input, || <L as Spider<_>>::half_spider(ff(s.clone(), sc), w.clone()));
            if let Some(lhs) = lhs {
                ctx.check(lhs.is_some() == (sc == n), "lax::half_spider/fails-iff-leg-misses-node-list/value/any", || json!({"input": input(), "observed_some": lhs.is_some()}));
                if let (Some(h), true) = (lhs, sc == n) {
                    if let Some(pl) = walk_lax(ctx, "lax::half_spider", "any", &h, &input) {
                        match pl.strict() {
                            Ok((p, _)) => {
                                if ctx.check(pl.e.is_empty() && p.src_type() == hwant.src_type() && p.tgt_type() == hwant.tgt_type(), "lax::half_spider/discrete/value/any", || json!({"input": input(), "observed": show_lax(&pl)})) {
                                    expect_iso(ctx, "lax::half_spider", "is-spider-with-identity-leg-model", "any", &p, &hwant, &input);
                                }
                            }
                            Err(_) => {
                                ctx.check(false, "lax::half_spider/quotientable/value/any", || json!({"input": input(), "observed": show_lax(&pl)}));
                            }
                        }
                    }
                }
            }
        }
        ctx.sample(if accept { "spider_accept" } else { "spider_reject" }, || input());
    }

    fn fusion(&self, ctx: &mut Ctx, r: &mut Rng, fixed: Option<((Vec<usize>, Vec<usize>, Vec<u32>), (Vec<usize>, Vec<usize>, Vec<u32>))>) {
        let ((s1, t1, w1), (s2, t2, w2)) = fixed.unwrap_or_else(|| {
            let a = cospan(r, 5, 5);
            let ty: Vec<u32> = a.1.iter().map(|&i| a.2[i]).collect();
            let b = cospan_with_source(r, &ty, 3, 4);
            (a, b)
        });
        let input = || json!({"s": s1, "t": t1, "w": w1, "s'": s2, "t'": t2, "w'": w2});
        let inj = |l: &Vec<usize>| { let mut d = l.clone(); d.sort(); d.dedup(); d.len() == l.len() };
        if !inj(&t1) || !inj(&s2) {
            ctx.class("fusion_non_injective_leg");
            ctx.nontrivial(&("fusion", &s1, &t1, &w1, &s2, &t2, &w2));
        }
        if w1.is_empty() || w2.is_empty() {
            ctx.class("fusion_empty_node_set");
        }
        let a = POh::<u32, u64>::spider(s1.clone(), t1.clone(), w1.clone());
        let b = POh::<u32, u64>::spider(s2.clone(), t2.clone(), w2.clone());
        let want = match a.compose(&b) {
            Some(w) => w,
            None => {
                ctx.inconclusive("fusion generator produced mismatching boundary");
                return;
            }
        };
        let (n1, n2) = (w1.len(), w2.len());
        let got = lib(ctx, "spider;spider", "fusion", &input, || {
            let x = S::spider(ff(s1.clone(), n1), ff(t1.clone(), n1), sf(w1.clone()))?;
            let y = S::spider(ff(s2.clone(), n2), ff(t2.clone(), n2), sf(w2.clone()))?;
            x.compose(&y)
        })
        .flatten();
        ctx.count("law:spider-fusion");
        match got {
            Some(g) => {
                if let Some(p) = expect_diagram(ctx, "spider;spider", "fusion-is-cospan-composition", "fusion", &g, &want, &input) {
                    ctx.check(p.e.is_empty(), "spider;spider/fusion-is-discrete/value/fusion", || json!({"input": input(), "observed": show(&p)}));
                }
            }
            None => {
                ctx.check(false, "spider;spider/fusion-defined/value/fusion", || json!({"input": input()}));
            }
        }
        // the same through the lax representation
        let got = lib(ctx, "lax::spider;spider", "fusion", &input, || {
            let x = L::spider(ff(s1.clone(), n1), ff(t1.clone(), n1), w1.clone())?;
            let y = L::spider(ff(s2.clone(), n2), ff(t2.clone(), n2), w2.clone())?;
            Arrow::compose(&x, &y)
        })
        .flatten();
        match got {
            Some(g) => {
                if let Some(pl) = walk_lax(ctx, "lax::spider;spider", "fusion", &g, &input) {
                    match pl.strict() {
                        Ok((p, _)) => {
                            expect_iso(ctx, "lax::spider;spider", "fusion-is-cospan-composition", "fusion", &p, &want, &input);
                        }
                        Err(_) => {
                            ctx.check(false, "lax::spider;spider/quotientable/value/fusion", || json!({"input": input()}));
                        }
                    }
                }
            }
            None => {
                ctx.check(false, "lax::spider;spider/fusion-defined/value/fusion", || json!({"input": input()}));
            }
        }
        // three spiders, composed right-nested through the lax representation without quotienting in between
        // (the inner composite still carries its pending pairs when it becomes the right operand): a;(b;c) is the
        // gluing of all three
        {
            let ty: Vec<u32> = t2.iter().map(|&i| w2[i]).collect();
            // third cospan: half of the time a permutation-like pass-through (injective legs), else arbitrary
            let (s3, t3, w3) = if r.chance(1, 2) {
                let n = ty.len();
                let p = r.perm(n);
                let w3: Vec<u32> = { let mut w = vec![0u32; n]; for (i, &pi) in p.iter().enumerate() { w[pi] = ty[i]; } w };
                (p, (0..n).collect::<Vec<usize>>(), w3)
            } else {
                cospan_with_source(r, &ty, 3, 4)
            };
            let c = POh::<u32, u64>::spider(s3.clone(), t3.clone(), w3.clone());
            if let Some(want3) = want.compose(&c) {
                let n3 = w3.len();
                let inp = || json!({"a": [json!(s1), json!(t1), json!(w1)], "b": [json!(s2), json!(t2), json!(w2)], "c": [json!(s3), json!(t3), json!(w3)]});
                let got = lib(ctx, "lax::a;(b;c)", "fusion", &inp, || {
                    let x = L::spider(ff(s1.clone(), n1), ff(t1.clone(), n1), w1.clone())?;
                    let y = L::spider(ff(s2.clone(), n2), ff(t2.clone(), n2), w2.clone())?;
                    let z = L::spider(ff(s3.clone(), n3), ff(t3.clone(), n3), w3.clone())?;
                    let inner = Arrow::compose(&y, &z)?;
                    Arrow::compose(&x, &inner)
                })
                .flatten();
                ctx.count("law:lax-right-nested-fusion");
                match got {
                    Some(g) => {
                        if let Some(pl) = walk_lax(ctx, "lax::a;(b;c)", "fusion", &g, &inp) {
                            match pl.strict() {
                                Ok((p, _)) => {
                                    if ctx.check(p.src_type() == want3.src_type() && p.tgt_type() == want3.tgt_type(), "lax::a;(b;c)/type/value/fusion", || json!({"input": inp(), "observed": show(&p)})) {
                                        expect_iso(ctx, "lax::a;(b;c)", "fusion-is-cospan-composition", "fusion", &p, &want3, &inp);
                                    }
                                    // and the library's own quotient agrees with the model's
                                    if let Some(ps) = lib(ctx, "to_strict", "fusion", &inp, || g.clone().to_strict()).and_then(|s| from_strict(&s).ok()) {
                                        expect_iso(ctx, "lax::a;(b;c)", "library-quotient-is-cospan-composition", "fusion", &ps, &want3, &inp);
                                    }
                                }
                                Err(_) => {
                                    ctx.check(false, "lax::a;(b;c)/quotientable/value/fusion", || json!({"input": inp()}));
                                }
                            }
                        }
                    }
                    None => {
                        ctx.check(false, "lax::a;(b;c)/fusion-defined/value/fusion", || json!({"input": inp()}));
                    }
                }
            }
        }
        ctx.sample("fusion", || input());
    }

    fn structural_spiders(&self, ctx: &mut Ctx, r: &mut Rng) {
        let a = gen::type_list(r, 4, 2);
        let b = gen::type_list(r, 4, 2);
        let input = || json!({"a": a, "b": b});
        let n = a.len();
        // identity is the spider with identity legs
        let lhs = lib(ctx, "identity", "objects", &input, || S::identity(sf(a.clone())));
        let rhs = lib(ctx, "Spider::spider", "objects", &input, || S::spider(ff((0..n).collect(), n), ff((0..n).collect(), n), sf(a.clone()))).flatten();
        law(ctx, "identity-is-a-spider", "objects", lhs, rhs, &input);
        // symmetry is the spider with the twist as source leg over b●a
        let m = a.len() + b.len();
        let ba: Vec<u32> = b.iter().chain(a.iter()).cloned().collect();
        let mut tw: Vec<usize> = (b.len()..m).collect();
        tw.extend(0..b.len());
        let lhs = lib(ctx, "twist", "objects", &input, || <S as SymmetricMonoidal>::twist(sf(a.clone()), sf(b.clone())));
        let rhs = lib(ctx, "Spider::spider", "objects", &input, || S::spider(ff(tw.clone(), m), ff((0..m).collect(), m), sf(ba.clone()))).flatten();
        law(ctx, "symmetry-is-a-spider", "objects", lhs, rhs, &input);
        // lax versions against the strict ones, after strictification
        let lx = lib(ctx, "lax::identity", "objects", &input, || L::identity(a.clone()));
        if let Some(lx) = lx {
            if let Some(pl) = walk_lax(ctx, "lax::identity", "objects", &lx, &input) {
                match pl.strict() {
                    Ok((p, _)) => {
                        if ctx.check(pl.e.is_empty() && p.src_type() == a && p.tgt_type() == a, "lax::identity/is-identity-cospan/value/objects", || json!({"input": input(), "observed": show_lax(&pl)})) {
                            expect_iso(ctx, "lax::identity", "is-identity-cospan", "objects", &p, &POh::identity(a.clone()), &input);
                        }
                    }
                    Err(_) => {
                        ctx.check(false, "lax::identity/quotientable/value/objects", || json!({"input": input()}));
                    }
                }
            }
        }
        let lt = lib(ctx, "lax::twist", "objects", &input, || <L as SymmetricMonoidal>::twist(a.clone(), b.clone()));
        if let Some(lt) = lt {
            if let Some(pl) = walk_lax(ctx, "lax::twist", "objects", &lt, &input) {
                match pl.strict() {
                    Ok((p, _)) => {
                        let m = POh::<u32, u64>::twist(&a, &b);
                        if ctx.check(p.src_type() == m.src_type() && p.tgt_type() == m.tgt_type(), "lax::twist/type/value/objects", || json!({"input": input(), "observed": show(&p)})) {
                            expect_iso(ctx, "lax::twist", "is-the-symmetry", "objects", &p, &m, &input);
                        }
                    }
                    Err(_) => {
                        ctx.check(false, "lax::twist/quotientable/value/objects", || json!({"input": input()}));
                    }
                }
            }
        }
        ctx.sample("structural", || input());
    }
}

impl Monitor for C04 {
    fn id(&self) -> &'static str {
        "C04"
    }
    fn uses_iso(&self) -> bool {
        true
    }
    fn rule(&self) -> &'static str {
        "cases: fixed cospans (empty node set, legs off by one in codomain, all legs onto one node, disjoint legs) then seeded (a) composable pairs for the dagger laws (swap as raw \
         equality, involution as raw equality, (f;g)+ = g+;f+ and (f|g)+ = f+|g+ up to isomorphism, strict and lax), (b) spider construction with leg codomains at |w|, |w|+1, |w|-1 \
         (None iff a leg does not land in the node list; strict inherent, Spider trait, lax), half_spider, (c) pairs of labelled cospans with matching boundary type, non-injective and \
         non-surjective legs, composed through the API and compared up to isomorphism with cospan composition on the plain model (strict and lax), result must be discrete, (d) \
         identities and symmetries as spiders. non-trivial = fusion with a non-injective inner leg, a rejection, or a contravariance instance with >=1 hyperedge; distinct = hash of the instance. Also: half_spider (strict and lax) refuses exactly when the leg's codomain is not the node count and otherwise is the spider with an identity leg (compared with the model); the lax Spider trait; strict spiders are compared with the model up to a renumbering of their nodes (legs pinned by position), lax spiders / identities / symmetries after quotienting (they may be presented with pending unifications); legs with an entry equal to the node count (also over an empty node list); strict dagger laws compared with the model."
    }
    fn corpus_len(&self) -> u64 {
        8
    }
    fn floors(&self) -> Vec<(&'static str, u64)> {
        vec![
            ("class:spider_accept", 100),
            ("class:spider_reject", 100),
            ("class:spider_leg_entry_past_the_node_list", 30),
            ("api:lax::half_spider", 100),
            ("api:lax::Spider::spider", 100),
            ("class:fusion_non_injective_leg", 100),
            ("class:fusion_empty_node_set", 5),
            ("class:contravariance_with_edges", 100),
            ("law:spider-fusion", 200),
            ("law:lax-right-nested-fusion", 200),
            ("law:dagger-reverses-composition", 100),
            ("law:dagger-distributes-over-tensor", 100),
            ("law:dagger-involution", 100),
            ("law:identity-is-a-spider", 50),
            ("law:symmetry-is-a-spider", 50),
            ("law:half-spider-is-spider-with-identity-leg", 50),
            ("api:lax::spider", 100),
            ("api:lax::dagger", 100),
            ("class:lax_dagger_with_pending_unifications", 50),
            ("law:lax-dagger-reverses-composition", 100),
        ]
    }
    fn run_case(&self, idx: u64, r: &mut Rng, ctx: &mut Ctx) {
        match idx {
            0 => self.spider_construction(ctx, r, Some((vec![], 0, vec![], 0, vec![]))),
            1 => self.spider_construction(ctx, r, Some((vec![0, 1], 3, vec![0], 2, vec![0, 1]))),
            2 => self.spider_construction(ctx, r, Some((vec![0], 1, vec![0, 0], 2, vec![0, 1]))),
            3 => self.spider_construction(ctx, r, Some((vec![], 1, vec![], 1, vec![]))),
            4 => self.fusion(ctx, r, Some(((vec![0, 0], vec![0, 0, 0], vec![1]), (vec![0, 1, 2], vec![2, 2], vec![1, 1, 1])))),
            5 => self.fusion(ctx, r, Some(((vec![], vec![], vec![]), (vec![], vec![0], vec![0])))),
            6 => self.fusion(ctx, r, Some(((vec![0], vec![0, 1, 1, 2], vec![0, 0, 0]), (vec![0, 0, 1, 1], vec![1], vec![0, 0])))),
            7 => self.fusion(ctx, r, Some(((vec![0, 1], vec![], vec![0, 1]), (vec![], vec![0, 0], vec![1])))),
            _ => match r.below(8) {
                0 | 1 => self.dagger_laws(ctx, r),
                2 | 3 => self.spider_construction(ctx, r, None),
                4..=6 => self.fusion(ctx, r, None),
                _ => self.structural_spiders(ctx, r),
            },
        }
    }
}
