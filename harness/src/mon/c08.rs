//! C08 Segmented arrays behave as lists of lists and keep their size invariant.

use super::common::*;
use crate::conv::*;
use crate::ctx::*;
use crate::rng::Rng;
use open_hypergraphs::array::vec::VecKind;
use open_hypergraphs::indexed_coproduct::{HasLen, IndexedCoproduct};
use open_hypergraphs::operations::Operations;
use serde_json::{json, Value};

pub struct C08;

type LL = Vec<Vec<usize>>;

fn gen_ll(r: &mut Rng, max_seg: usize, max_size: usize, target: usize) -> LL {
    let n = r.small(max_seg);
    (0..n)
        .map(|_| {
            let k = if target == 0 { 0 } else { r.small(max_size) };
            r.vec_below(k, target.max(1))
        })
        .collect()
}

fn strs(l: &LL) -> Vec<Vec<String>> {
    l.iter().map(|s| s.iter().map(|x| format!("v{}", x)).collect()).collect()
}

/// decode a library segmented array (finite-function values) and compare with the expected lists
fn expect_seg(ctx: &mut Ctx, api: &str, got: &Seg, want: &LL, want_target: usize, input: &dyn Fn() -> Value) {
    ctx.api(api);
    match seg_to_lists(got) {
        Err(e) => {
            ctx.check(false, &format!("{}/size-invariant/value/any", api), || json!({"input": input(), "observed": e}));
        }
        Ok(l) => {
            ctx.check(l == *want && got.values.target == want_target, &format!("{}/list-of-lists/value/any", api), || {
                json!({"input": input(), "observed": l, "observed_values_target": got.values.target,
                       "expected": want, "expected_values_target": want_target})
            });
        }
    }
}

fn expect_segs(ctx: &mut Ctx, api: &str, got: &SegS<String>, want: &Vec<Vec<String>>, input: &dyn Fn() -> Value) {
    ctx.api(api);
    match segs_to_lists(got) {
        Err(e) => {
            ctx.check(false, &format!("{}/size-invariant/value/any", api), || json!({"input": input(), "observed": e}));
        }
        Ok(l) => {
            ctx.check(l == *want, &format!("{}/list-of-lists/value/any", api), || {
                json!({"input": input(), "observed": l, "expected": want})
            });
        }
    }
}

impl C08 {
    fn constructors(&self, ctx: &mut Ctx, r: &mut Rng) {
        // raw data at and around the acceptance boundary
        let sizes: Vec<usize> = { let k = r.small(5); (0..k).map(|_| r.small(3)).collect() };
        let sum: usize = sizes.iter().sum();
        let dlen = [0isize, 0, 0, 1, -1][r.below(5)];
        let dtgt = [0isize, 0, 0, 1, -1][r.below(5)];
        let vlen = (sum as isize + dlen).max(0) as usize;
        let tgt = (sum as isize + 1 + dtgt).max(0) as usize;
        let vt = r.range(1, 4);
        let values = r.vec_below(vlen, vt);
        let input = || json!({"sizes": sizes, "sizes_target": tgt, "values_len": vlen});
        let want = vlen == sum && tgt == sum + 1;
        ctx.class(if want { "ctor_accept" } else { "ctor_reject" });
        ctx.nontrivial(&("ctor", &sizes, tgt, vlen));
        // the list-of-lists reading of accepted data (only meaningful when the sizes sum to the value length)
        let want_l: LL = if vlen == sum { let mut at = 0; sizes.iter().map(|&k| { let s = values[at..at + k].to_vec(); at += k; s }).collect() } else { vec![] };
        let want_ls: Vec<Vec<String>> = want_l.iter().map(|l| l.iter().map(|x| format!("v{}", x)).collect()).collect();
        let r1 = guard(|| IndexedCoproduct::<VecKind, FF>::new(ff(sizes.clone(), tgt), ff(values.clone(), vt)));
        if let Some(x) = must_return(ctx, "new<FF>", "ctor", r1, input) {
            ctx.check(x.is_some() == want, "new<FF>/accept-iff/value/ctor", || json!({"input": input(), "observed_some": x.is_some(), "expected_some": want}));
            if let Some(seg) = x {
                expect_seg(ctx, "new<FF>", &seg, &want_l, vt, &input);
            }
        }
        let sv: Vec<String> = values.iter().map(|x| format!("v{}", x)).collect();
        let r2 = guard(|| IndexedCoproduct::<VecKind, SF<String>>::new(ff(sizes.clone(), tgt), sf(sv.clone())));
        if let Some(x) = must_return(ctx, "new<SF>", "ctor", r2, input) {
            ctx.check(x.is_some() == want, "new<SF>/accept-iff/value/ctor", || json!({"input": input(), "observed_some": x.is_some(), "expected_some": want}));
            if let Some(seg) = x {
                expect_segs(ctx, "new<SF>", &seg, &want_ls, &input);
            }
        }
        // from_semifinite computes the codomain itself: accepted iff sizes sum to the value length
        let want2 = vlen == sum;
        let r3 = guard(|| IndexedCoproduct::<VecKind, FF>::from_semifinite(sf(sizes.clone()), ff(values.clone(), vt)));
        if let Some(x) = must_return(ctx, "from_semifinite<FF>", "ctor", r3, input) {
            ctx.check(x.is_some() == want2, "from_semifinite<FF>/accept-iff/value/ctor", || json!({"input": input(), "observed_some": x.is_some(), "expected_some": want2}));
            if let Some(seg) = x {
                let mut at = 0;
                let want_l: LL = sizes.iter().map(|&k| { let s = values[at..at + k].to_vec(); at += k; s }).collect();
                expect_seg(ctx, "from_semifinite<FF>", &seg, &want_l, vt, &input);
            }
        }
        let r4 = guard(|| IndexedCoproduct::<VecKind, SF<String>>::from_semifinite(sf(sizes.clone()), sf(sv.clone())));
        if let Some(x) = must_return(ctx, "from_semifinite<SF>", "ctor", r4, input) {
            ctx.check(x.is_some() == want2, "from_semifinite<SF>/accept-iff/value/ctor", || json!({"input": input(), "observed_some": x.is_some(), "expected_some": want2}));
            if let Some(seg) = x {
                expect_segs(ctx, "from_semifinite<SF>", &seg, &want_ls, &input);
            }
        }
    }

    fn operations(&self, ctx: &mut Ctx, r: &mut Rng, fixed: Option<(LL, usize)>) {
        let (a, ta) = match fixed {
            Some(x) => x,
            None => {
                let t = r.range(0, 5);
                if r.chance(1, 400) {
                    // a few segments, one or two of them several hundred elements long
                    ctx.class("segment_longer_than_256");
                    let tt = t.max(1);
                    let mut a = gen_ll(r, 4, 3, tt);
                    let k = r.range(257, 700);
                    let at = r.below(a.len() + 1);
                    a.insert(at, r.vec_below(k, tt));
                    if r.chance(1, 2) {
                        let k2 = r.range(257, 600);
                        a.push(r.vec_below(k2, tt));
                    }
                    (a, tt)
                } else if r.chance(1, 400) {
                    // more than a thousand short segments, the last one non-empty
                    ctx.class("more_than_1024_segments");
                    let tt = t.max(1);
                    let n = r.range(1025, 1400);
                    let mut a: LL = (0..n).map(|_| { let k = r.below(3); r.vec_below(k, tt) }).collect();
                    let kk = r.range(1, 2);
                    a.push(r.vec_below(kk, tt));
                    (a, tt)
                } else if r.chance(1, 2000) {
                    // value arrays longer than one / two pages of 4096 entries, in an irregular ladder of lengths over
                    // the run of the process (the primer of main.rs has made much larger and slightly smaller calls
                    // on this thread before): scratch tables, index caches and the like kept alive between calls
                    ctx.class("more_than_4096_values");
                    let tt = t.max(1);
                    let total = *r.pick(&[4097usize, 4200, 5000, 6000, 8191, 8193, 9000]) + r.below(90);
                    let nseg = r.range(1, 6);
                    let mut a: LL = vec![];
                    let mut left = total;
                    for i in 0..nseg {
                        let k = if i + 1 == nseg { left } else { r.below(left + 1) };
                        left -= k;
                        a.push(r.vec_below(k, tt));
                    }
                    (a, tt)
                } else if r.chance(1, 10) {
                    // long segments (more than 16 elements)
                    ctx.class("segments_up_to_24");
                    (gen_ll(r, 5, 24, t.max(1)), t.max(1))
                } else {
                    (gen_ll(r, 6, 3, t), t)
                }
            }
        };
        let tb = if r.chance(3, 4) { ta } else { r.range(0, 5) };
        let b = gen_ll(r, 5, 3, tb);
        let input = || json!({"a": a, "a_target": ta, "b": b, "b_target": tb});
        if a.is_empty() {
            ctx.class("zero_segments");
        }
        if !a.is_empty() && a.iter().all(|s| s.is_empty()) {
            ctx.class("all_segments_empty");
        }
        if a.len() >= 2 && a.iter().any(|s| !s.is_empty()) {
            ctx.nontrivial(&(&a, ta, &b, tb));
        }
        let sa = seg_from_lists(&a, ta);
        let sb = seg_from_lists(&b, tb);
        let ssa = segs_from_lists(&strs(&a));
        let ssb = segs_from_lists(&strs(&b));

        // len
        ctx.api("len");
        ctx.check(sa.len() == a.len() && HasLen::<VecKind>::len(&ssa) == a.len(), "len/count/value/any", || json!({"input": input(), "observed": sa.len()}));

        // singleton / elements / initial
        let flat: Vec<usize> = a.iter().flatten().cloned().collect();
        if let Some(x) = must_return(ctx, "singleton", "any", guard(|| IndexedCoproduct::<VecKind, FF>::singleton(ff(flat.clone(), ta))), input) {
            expect_seg(ctx, "singleton", &x, &vec![flat.clone()], ta, &input);
        }
        if let Some(x) = must_return(ctx, "elements", "any", guard(|| IndexedCoproduct::<VecKind, FF>::elements(ff(flat.clone(), ta))), input) {
            let want: LL = flat.iter().map(|&v| vec![v]).collect();
            expect_seg(ctx, "elements", &x, &want, ta, &input);
        }
        if let Some(x) = must_return(ctx, "elements<SF>", "any", guard(|| IndexedCoproduct::<VecKind, SF<String>>::elements(sf(flat.iter().map(|x| format!("v{}", x)).collect()))), input) {
            let want: Vec<Vec<String>> = flat.iter().map(|&v| vec![format!("v{}", v)]).collect();
            expect_segs(ctx, "elements<SF>", &x, &want, &input);
        }
        if let Some(x) = must_return(ctx, "initial", "any", guard(|| IndexedCoproduct::<VecKind, FF>::initial(ta)), input) {
            expect_seg(ctx, "initial", &x, &vec![], ta, &input);
        }

        // coproduct (same codomain required for finite-function values)
        if let Some(x) = must_return(ctx, "coproduct", "any", guard(|| sa.coproduct(&sb)), input) {
            let mut want = a.clone();
            want.extend(b.iter().cloned());
            if ta == tb {
                match x {
                    Some(c) => expect_seg(ctx, "coproduct", &c, &want, ta, &input),
                    None => { ctx.check(false, "coproduct/defined/value/same_codomain", || json!({"input": input(), "observed": "None"})); }
                }
            } else {
                // finite-function values over different codomains have no common list-of-lists
                // reading; the outcome is recorded but not judged
                ctx.count(if x.is_none() { "unjudged:coproduct_different_codomain_None" } else { "unjudged:coproduct_different_codomain_Some" });
            }
        }
        if let Some(x) = must_return(ctx, "coproduct<SF>", "any", guard(|| ssa.coproduct(&ssb)), input) {
            let mut want = strs(&a);
            want.extend(strs(&b));
            match x {
                Some(c) => expect_segs(ctx, "coproduct<SF>", &c, &want, &input),
                None => { ctx.check(false, "coproduct<SF>/defined/value/any", || json!({"input": input(), "observed": "None"})); }
            }
        }
        // tensor
        if let Some(x) = must_return(ctx, "tensor", "any", guard(|| sa.tensor(&sb)), input) {
            let mut want = a.clone();
            want.extend(b.iter().map(|s| s.iter().map(|&v| v + ta).collect::<Vec<_>>()));
            expect_seg(ctx, "tensor", &x, &want, ta + tb, &input);
        }

        // re-indexing
        let xlen = r.small(6);
        let xt = if r.chance(5, 6) { a.len() } else { a.len() + 1 };
        let x: Vec<usize> = if xt == 0 { vec![] } else { r.vec_below(xlen, xt.max(1)).into_iter().map(|v| v.min(xt - 1)).collect() };
        let x = if a.is_empty() && xt == 0 { vec![] } else { x };
        {
            let mut sorted = x.clone();
            sorted.sort_unstable();
            sorted.dedup();
            if sorted.len() < x.len() {
                ctx.class("reindex_with_repetition");
            }
            if x.is_empty() {
                ctx.class("reindex_empty");
            }
        }
        let input_x = || json!({"a": a, "a_target": ta, "x": x, "x_target": xt});
        let fx = ff(x.clone(), xt);
        let typed = xt == a.len();
        let want_ix: LL = if typed { x.iter().map(|&i| a[i].clone()).collect() } else { vec![] };
        if !typed {
            // a map whose codomain is not the number of segments is no re-indexing map of `a`: outcome recorded, not judged
            let o = guard(|| sa.map_indexes(&fx).is_some());
            ctx.count(match o { Ok(true) => "unjudged:mistyped_reindex_Some", Ok(false) => "unjudged:mistyped_reindex_None", Err(_) => "unjudged:mistyped_reindex_panic" });
        } else if let Some(m) = must_return(ctx, "map_indexes", "any", guard(|| sa.map_indexes(&fx)), input_x) {
            match (typed, m) {
                (true, Some(s)) => expect_seg(ctx, "map_indexes", &s, &want_ix, ta, &input_x),
                (true, None) => { ctx.check(false, "map_indexes/defined/value/typed", || json!({"input": input_x(), "observed": "None"})); }
                (false, Some(_)) => { ctx.check(false, "map_indexes/undefined/value/mistyped", || json!({"input": input_x(), "observed": "Some"})); }
                (false, None) => { ctx.evaluations += 1; }
            }
        }
        if !typed {
            // a map whose codomain is not the number of segments is no re-indexing map of `a`: outcome recorded, not judged
            let o = guard(|| ssa.map_indexes(&fx).is_some());
            ctx.count(match o { Ok(true) => "unjudged:mistyped_reindex_Some", Ok(false) => "unjudged:mistyped_reindex_None", Err(_) => "unjudged:mistyped_reindex_panic" });
        } else if let Some(m) = must_return(ctx, "map_indexes<SF>", "any", guard(|| ssa.map_indexes(&fx)), input_x) {
            match (typed, m) {
                (true, Some(s)) => expect_segs(ctx, "map_indexes<SF>", &s, &strs(&want_ix), &input_x),
                (true, None) => { ctx.check(false, "map_indexes<SF>/defined/value/typed", || json!({"input": input_x(), "observed": "None"})); }
                (false, Some(_)) => { ctx.check(false, "map_indexes<SF>/undefined/value/mistyped", || json!({"input": input_x(), "observed": "Some"})); }
                (false, None) => { ctx.evaluations += 1; }
            }
        }
        if !typed {
            // a map whose codomain is not the number of segments is no re-indexing map of `a`: outcome recorded, not judged
            let o = guard(|| sa.indexed_values(&fx).is_some());
            ctx.count(match o { Ok(true) => "unjudged:mistyped_reindex_Some", Ok(false) => "unjudged:mistyped_reindex_None", Err(_) => "unjudged:mistyped_reindex_panic" });
        } else if let Some(m) = must_return(ctx, "indexed_values", "any", guard(|| sa.indexed_values(&fx)), input_x) {
            let want: Vec<usize> = want_ix.iter().flatten().cloned().collect();
            match (typed, m) {
                (true, Some(v)) => { ctx.check(v.table.0 == want && v.target == ta, "indexed_values/concat/value/typed", || json!({"input": input_x(), "observed": v.table.0, "expected": want})); }
                (true, None) => { ctx.check(false, "indexed_values/defined/value/typed", || json!({"input": input_x(), "observed": "None"})); }
                (false, Some(_)) => { ctx.check(false, "indexed_values/undefined/value/mistyped", || json!({"input": input_x(), "observed": "Some"})); }
                (false, None) => { ctx.evaluations += 1; }
            }
        }

        if !typed {
            // a map whose codomain is not the number of segments is no re-indexing map of `a`: outcome recorded, not judged
            let o = guard(|| ssa.indexed_values(&fx).is_some());
            ctx.count(match o { Ok(true) => "unjudged:mistyped_reindex_Some", Ok(false) => "unjudged:mistyped_reindex_None", Err(_) => "unjudged:mistyped_reindex_panic" });
        } else if let Some(m) = must_return(ctx, "indexed_values<SF>", "any", guard(|| ssa.indexed_values(&fx)), input_x) {
            let want: Vec<String> = strs(&want_ix).into_iter().flatten().collect();
            match (typed, m) {
                (true, Some(v)) => { ctx.check(v.0 .0 == want, "indexed_values<SF>/concat/value/typed", || json!({"input": input_x(), "observed": v.0 .0, "expected": want})); }
                (true, None) => { ctx.check(false, "indexed_values<SF>/defined/value/typed", || json!({"input": input_x(), "observed": "None"})); }
                (false, Some(_)) => { ctx.check(false, "indexed_values<SF>/undefined/value/mistyped", || json!({"input": input_x(), "observed": "Some"})); }
                (false, None) => { ctx.evaluations += 1; }
            }
        }

        // map_values / map_semifinite
        let mt = if r.chance(5, 6) { ta } else { ta + 1 };
        let codt = r.range(1, 4);
        let m: Vec<usize> = r.vec_below(mt, codt);
        let input_m = || json!({"a": a, "a_target": ta, "map": m, "map_codomain": codt});
        if let Some(res) = must_return(ctx, "map_values", "any", guard(|| sa.map_values(&ff(m.clone(), codt))), input_m) {
            if mt == ta {
                let want: LL = a.iter().map(|s| s.iter().map(|&v| m[v]).collect()).collect();
                match res {
                    Some(s) => expect_seg(ctx, "map_values", &s, &want, codt, &input_m),
                    None => { ctx.check(false, "map_values/defined/value/typed", || json!({"input": input_m(), "observed": "None"})); }
                }
            } else {
                ctx.check(res.is_none(), "map_values/undefined/value/mistyped", || json!({"input": input_m(), "observed": "Some"}));
            }
        }
        let ms: Vec<String> = m.iter().map(|v| format!("m{}", v)).collect();
        if let Some(res) = must_return(ctx, "map_semifinite", "any", guard(|| sa.map_semifinite(&sf(ms.clone()))), input_m) {
            if mt == ta {
                let want: Vec<Vec<String>> = a.iter().map(|s| s.iter().map(|&v| ms[v].clone()).collect()).collect();
                match res {
                    Some(s) => expect_segs(ctx, "map_semifinite", &s, &want, &input_m),
                    None => { ctx.check(false, "map_semifinite/defined/value/typed", || json!({"input": input_m(), "observed": "None"})); }
                }
            } else {
                ctx.check(res.is_none(), "map_semifinite/undefined/value/mistyped", || json!({"input": input_m(), "observed": "Some"}));
            }
        }

        // flatmap: a : A -> B*, c : B -> C*, with |c| = ta
        let tc = r.range(0, 4);
        let c: LL = (0..ta).map(|_| { let k = if tc == 0 { 0 } else { r.small(3) }; r.vec_below(k, tc.max(1)) }).collect();
        let sc = seg_from_lists(&c, tc);
        let input_c = || json!({"a": a, "a_target": ta, "c": c, "c_target": tc});
        if let Some(res) = must_return(ctx, "flatmap", "any", guard(|| sa.flatmap(&sc)), input_c) {
            let want: LL = a.iter().map(|s| s.iter().flat_map(|&v| c[v].iter().cloned()).collect()).collect();
            expect_seg(ctx, "flatmap", &res, &want, tc, &input_c);
        }
        // flatmap_sources: other has one segment per value of a
        let nvals = flat.len();
        let d: LL = (0..nvals).map(|_| { let k = r.small(3); r.vec_below(k, 5) }).collect();
        let sd = segs_from_lists(&strs(&d));
        let input_d = || json!({"a": a, "d": d});
        if let Some(res) = must_return(ctx, "flatmap_sources", "any", guard(|| sa.flatmap_sources(&sd)), input_d) {
            let mut at = 0;
            let mut want: Vec<Vec<String>> = vec![];
            for s in &a {
                let mut seg = vec![];
                for _ in 0..s.len() {
                    seg.extend(d[at].iter().map(|v| format!("v{}", v)));
                    at += 1;
                }
                want.push(seg);
            }
            expect_segs(ctx, "flatmap_sources", &res, &want, &input_d);
        }

        // the same with finite-function values on the right (the codomain carries over), and with
        // label values on the left (only the segment sizes of `self` matter)
        let sdf = seg_from_lists(&d, 5);
        if let Some(res) = must_return(ctx, "flatmap_sources<FF>", "any", guard(|| sa.flatmap_sources(&sdf)), input_d) {
            let mut at = 0;
            let mut want: LL = vec![];
            for s in &a {
                let mut seg = vec![];
                for _ in 0..s.len() {
                    seg.extend(d[at].iter().cloned());
                    at += 1;
                }
                want.push(seg);
            }
            expect_seg(ctx, "flatmap_sources<FF>", &res, &want, 5, &input_d);
            if let Some(res2) = must_return(ctx, "flatmap_sources<SF,FF>", "any", guard(|| ssa.flatmap_sources(&sdf)), input_d) {
                expect_seg(ctx, "flatmap_sources<SF,FF>", &res2, &want, 5, &input_d);
            }
        }

        // iterators: every slice once, in order; exact remaining count through len() and size_hint()
        self.iterators(ctx, &a, ta, &input);
        ctx.sample(if a.is_empty() { "zero_segments" } else { "random" }, || json!({"a": a, "a_target": ta, "b": b, "x": x}));
    }

    fn iterators(&self, ctx: &mut Ctx, a: &LL, ta: usize, input: &dyn Fn() -> Value) {
        let n = a.len();
        // finite-function values
        {
            let sa = seg_from_lists(a, ta);
            let r = guard(|| {
                let mut it = sa.into_iter();
                let mut log: Vec<(usize, (usize, Option<usize>), Option<Vec<usize>>)> = vec![];
                let mut bad_target: Option<usize> = None;
                loop {
                    let l = it.len();
                    let h = it.size_hint();
                    let x = it.next();
                    let done = x.is_none();
                    // every yielded slice is a finite function into the codomain of the values
                    if let Some(f) = &x {
                        if f.target != ta {
                            bad_target = Some(f.target);
                        }
                    }
                    log.push((l, h, x.map(|f| f.table.0.clone())));
                    if done || log.len() > n + 3 {
                        break;
                    }
                }
                // after exhaustion the iterator must keep reporting 0
                (log, it.len(), it.size_hint(), bad_target)
            });
            if let Some((log, end_len, end_hint, bad_target)) = must_return(ctx, "into_iter<FF>", "any", r, input) {
                ctx.check(bad_target.is_none(), "into_iter<FF>/slices-keep-the-codomain/value/any", || json!({"input": input(), "observed_codomain": bad_target, "expected_codomain": ta}));
                ctx.count_n("events:iterator_steps", log.len() as u64);
                if log.len() > 1 {
                    ctx.class("partially_consumed_iterator");
                }
                let mut ok_items = log.len() == n + 1;
                let mut ok_len = true;
                for (k, (l, h, x)) in log.iter().enumerate() {
                    let remaining = n.saturating_sub(k);
                    if *l != remaining || *h != (remaining, Some(remaining)) {
                        ok_len = false;
                    }
                    match x {
                        Some(v) => { if k >= n || *v != a[k] { ok_items = false; } }
                        None => { if k != n { ok_items = false; } }
                    }
                }
                if end_len != 0 || end_hint != (0, Some(0)) {
                    ok_len = false;
                }
                ctx.check(ok_items, "into_iter<FF>/each-slice-once-in-order/value/any", || json!({"input": input(), "observed": format!("{:?}", log)}));
                ctx.check(ok_len, "into_iter<FF>/exact-remaining/value/any", || json!({"input": input(), "observed_len_hint_item_per_step": format!("{:?}", log),
                    "expected": "len() and size_hint() equal the number of slices still to come after every step"}));
            }
        }
        // semifinite values
        {
            let ssa = segs_from_lists(&strs(a));
            let want = strs(a);
            let r = guard(|| {
                let mut it = ssa.into_iter();
                let mut log: Vec<(usize, (usize, Option<usize>), Option<Vec<String>>)> = vec![];
                loop {
                    let l = it.len();
                    let h = it.size_hint();
                    let x = it.next();
                    let done = x.is_none();
                    log.push((l, h, x.map(|f| f.0 .0.clone())));
                    if done || log.len() > n + 3 {
                        break;
                    }
                }
                (log, it.len(), it.size_hint())
            });
            if let Some((log, end_len, end_hint)) = must_return(ctx, "into_iter<SF>", "any", r, input) {
                ctx.count_n("events:iterator_steps", log.len() as u64);
                let mut ok_items = log.len() == n + 1;
                let mut ok_len = true;
                for (k, (l, h, x)) in log.iter().enumerate() {
                    let remaining = n.saturating_sub(k);
                    if *l != remaining || *h != (remaining, Some(remaining)) {
                        ok_len = false;
                    }
                    match x {
                        Some(v) => { if k >= n || *v != want[k] { ok_items = false; } }
                        None => { if k != n { ok_items = false; } }
                    }
                }
                if end_len != 0 || end_hint != (0, Some(0)) {
                    ok_len = false;
                }
                ctx.check(ok_items, "into_iter<SF>/each-slice-once-in-order/value/any", || json!({"input": input(), "observed": format!("{:?}", log)}));
                ctx.check(ok_len, "into_iter<SF>/exact-remaining/value/any", || json!({"input": input(), "observed_len_hint_item_per_step": format!("{:?}", log),
                    "expected": "len() and size_hint() equal the number of slices still to come after every step"}));
            }
        }
        // label values of a zero-sized type: only the lengths of the slices can be observed, and they must be right
        {
            let units: Vec<Vec<()>> = a.iter().map(|l| vec![(); l.len()]).collect();
            let su = segs_from_lists(&units);
            let su2 = su.clone();
            let r = guard(|| (su.into_iter().map(|f| f.0 .0.len()).collect::<Vec<usize>>(), su2.iter().map(|s| s.len()).collect::<Vec<usize>>()));
            if let Some((owned, borrowed)) = must_return(ctx, "into_iter<SF<()>>", "any", r, input) {
                let want: Vec<usize> = a.iter().map(|l| l.len()).collect();
                ctx.check(owned == want && borrowed == want, "into_iter<SF<()>>/each-slice-once-in-order/value/any", || json!({"input": input(), "observed_lengths": [owned.clone(), borrowed.clone()], "expected_lengths": want}));
            }
        }
        // borrowed slice iterator
        {
            let ssa = segs_from_lists(&strs(a));
            let want = strs(a);
            let r = guard(|| ssa.iter().map(|s| s.to_vec()).collect::<Vec<Vec<String>>>());
            if let Some(l) = must_return(ctx, "iter<SF>", "any", r, input) {
                ctx.check(l == want, "iter<SF>/each-slice-once-in-order/value/any", || json!({"input": input(), "observed": l}));
            }
        }
    }

    fn operations_batch(&self, ctx: &mut Ctx, r: &mut Rng) {
        let n = r.small(5);
        let da = [0isize, 0, 0, 1, -1][r.below(5)];
        let db = [0isize, 0, 0, 1, -1][r.below(5)];
        let na = (n as isize + da).max(0) as usize;
        let nb = (n as isize + db).max(0) as usize;
        let x: Vec<String> = (0..n).map(|k| format!("op{}", k)).collect();
        let a: LL = (0..na).map(|_| { let k = r.small(3); r.vec_below(k, 4) }).collect();
        let b: LL = (0..nb).map(|_| { let k = r.small(3); r.vec_below(k, 4) }).collect();
        let input = || json!({"labels": x, "source_types": a, "target_types": b});
        let want = na == n && nb == n;
        ctx.class(if want { "operations_accept" } else { "operations_reject" });
        ctx.nontrivial(&("ops", &x, &a, &b));
        let res = guard(|| Operations::<VecKind, usize, String>::new(sf(x.clone()), segs_from_lists(&a), segs_from_lists(&b)));
        if let Some(o) = must_return(ctx, "Operations::new", "any", res, input) {
            ctx.check(o.is_some() == want, "Operations::new/accept-iff/value/any", || json!({"input": input(), "observed_some": o.is_some(), "expected_some": want}));
            if let Some(ops) = o {
                ctx.api("Operations::len");
                ctx.check(ops.len() == n, "Operations::len/count/value/any", || json!({"input": input(), "observed": ops.len()}));
                let it = guard(|| ops.iter().map(|(l, s, t)| (l.clone(), s.to_vec(), t.to_vec())).collect::<Vec<_>>());
                if let Some(l) = must_return(ctx, "Operations::iter", "any", it, input) {
                    let want: Vec<(String, Vec<usize>, Vec<usize>)> = (0..n).map(|k| (x[k].clone(), a[k].clone(), b[k].clone())).collect();
                    ctx.check(l == want, "Operations::iter/triples-in-order/value/any", || json!({"input": input(), "observed": format!("{:?}", l)}));
                }
            }
        }
        let (ka, kb) = (r.small(3), r.small(3));
        let (sa, sb) = (r.vec_below(ka, 4), r.vec_below(kb, 4));
        let res = guard(|| Operations::<VecKind, usize, String>::singleton("one".to_string(), sf(sa.clone()), sf(sb.clone())));
        if let Some(ops) = must_return(ctx, "Operations::singleton", "any", res, input) {
            let l: Vec<_> = ops.iter().map(|(l, s, t)| (l.clone(), s.to_vec(), t.to_vec())).collect();
            ctx.check(l == vec![("one".to_string(), sa.clone(), sb.clone())] && ops.len() == 1, "Operations::singleton/one-triple/value/any", || json!({"source": sa, "target": sb, "observed": format!("{:?}", l)}));
        }
    }
}

impl Monitor for C08 {
    fn id(&self) -> &'static str {
        "C08"
    }
    fn rule(&self) -> &'static str {
        "cases: fixed shapes (zero segments, all segments empty, single segment, empty value array) then seeded lists of 0-6 segments of size 0-3 over codomains 0-5, \
         with finite-function values and with String (non-Copy) values; raw (sizes, codomain, values) triples at the acceptance boundary (sum +-1, codomain +-1) for new / \
         from_semifinite / Operations::new; re-index maps including non-injective, empty and mistyped ones; composable pairs for flatmap and flatmap_sources. Every result \
         is decoded by explicit loops (which re-checks the size invariant) and compared with list-of-lists semantics; both owning iterators are stepped and after every \
         next() both len() and size_hint() must equal the number of slices still to come. non-trivial = >=2 segments with >=1 non-empty, or a constructor decision at a \
         boundary value; distinct = hash of the input lists. Also: accepted constructor payloads are decoded, every slice yielded by the owning iterator must carry the codomain of the values, flatmap_sources with finite-function values on the right and label values on the left, indexed_values on label arrays. Round 8: 1/2000 of the operation cases use value arrays of 4097-9090 entries (lengths around one and two pages of 4096) in 1-6 segments."
    }
    fn corpus_len(&self) -> u64 {
        6
    }
    fn floors(&self) -> Vec<(&'static str, u64)> {
        vec![
            ("class:zero_segments", 5),
            ("class:more_than_4096_values", 20),
            ("class:all_segments_empty", 5),
            ("class:partially_consumed_iterator", 100),
            ("class:reindex_with_repetition", 50),
            ("class:reindex_empty", 20),
            ("class:ctor_accept", 50),
            ("class:ctor_reject", 50),
            ("class:operations_accept", 20),
            ("class:operations_reject", 20),
            ("class:segment_longer_than_256", 100),
            ("class:more_than_1024_segments", 100),
            ("class:segments_up_to_24", 200),
            ("api:flatmap", 200),
            ("api:flatmap_sources", 200),
            ("api:map_indexes", 200),
            ("api:tensor", 200),
            ("api:coproduct", 200),
            ("api:into_iter<FF>", 200),
            ("api:into_iter<SF>", 200),
            ("api:Operations::iter", 20),
            ("events:iterator_steps", 1000),
        ]
    }
    fn run_case(&self, idx: u64, r: &mut Rng, ctx: &mut Ctx) {
        let fixed: Vec<(LL, usize)> = vec![
            (vec![], 0),
            (vec![], 3),
            (vec![vec![], vec![], vec![]], 2),
            (vec![vec![0, 1, 1]], 2),
            (vec![vec![], vec![2], vec![], vec![0, 0]], 3),
            (vec![vec![0], vec![1], vec![2]], 3),
        ];
        if (idx as usize) < fixed.len() {
            self.operations(ctx, r, Some(fixed[idx as usize].clone()));
            return;
        }
        match r.below(8) {
            0 | 1 => self.constructors(ctx, r),
            2 => self.operations_batch(ctx, r),
            _ => self.operations(ctx, r, None),
        }
    }
}
