//! C11 Imperative editing of lax diagrams refines a plain list model; JSON round trip.

use super::common::*;
use crate::conv::*;
use crate::ctx::*;
use crate::gen::{self, OhParams, PL};
use crate::model::*;
use crate::rng::Rng;
use open_hypergraphs::lax::{self, EdgeId, Hyperedge, NodeId};
use serde_json::{json, Value};

pub struct C11;

type L = LOh<u32, u64>;

fn nid(v: &[usize]) -> Vec<NodeId> {
    v.iter().map(|&i| NodeId(i)).collect()
}

/// model deletion of nodes: returns the renumbering (old -> Some(new) | None)
pub fn model_delete_nodes(m: &mut PL, ids: &[usize]) -> Vec<Option<usize>> {
    let n = m.w.len();
    let mut dead = vec![false; n];
    for &i in ids {
        dead[i] = true;
    }
    let mut map = vec![None; n];
    let mut w = vec![];
    for i in 0..n {
        if !dead[i] {
            map[i] = Some(w.len());
            w.push(m.w[i]);
        }
    }
    m.w = w;
    let f = |l: &Vec<usize>| -> Vec<usize> { l.iter().filter_map(|&v| map[v]).collect() };
    for e in m.e.iter_mut() {
        e.s = f(&e.s);
        e.t = f(&e.t);
    }
    m.s = f(&m.s);
    m.t = f(&m.t);
    m.q = m.q.iter().filter_map(|&(a, b)| match (map[a], map[b]) { (Some(x), Some(y)) => Some((x, y)), _ => None }).collect();
    map
}

fn model_delete_edges(m: &mut PL, ids: &[usize]) {
    let mut dead = vec![false; m.e.len()];
    for &i in ids {
        dead[i] = true;
    }
    let mut k = 0;
    m.e.retain(|_| { let keep = !dead[k]; k += 1; keep });
}

fn expected_json(m: &PL) -> Value {
    json!({
        "sources": m.s,
        "targets": m.t,
        "hypergraph": {
            "nodes": m.w,
            "edges": m.e.iter().map(|e| e.l).collect::<Vec<_>>(),
            "adjacency": m.e.iter().map(|e| json!({"sources": e.s, "targets": e.t})).collect::<Vec<_>>(),
            "quotient": [m.q.iter().map(|p| p.0).collect::<Vec<_>>(), m.q.iter().map(|p| p.1).collect::<Vec<_>>()],
        }
    })
}

/// `have` contains every key of `want` (recursively, objects only) with an equal value
fn json_contains(have: &Value, want: &Value) -> bool {
    match (have, want) {
        (Value::Object(h), Value::Object(w)) => w.iter().all(|(k, v)| h.get(k).map_or(false, |x| json_contains(x, v))),
        (Value::Array(h), Value::Array(w)) => h.len() == w.len() && h.iter().zip(w.iter()).all(|(a, b)| json_contains(a, b)),
        (a, b) => a == b,
    }
}

fn ids_arg(r: &mut Rng, n: usize) -> (Vec<usize>, &'static str) {
    // valid / duplicated / empty / out of range
    match r.below(8) {
        0 => (vec![], "empty"),
        1 | 2 if n > 0 => {
            let k = r.range(1, 3);
            let mut v = r.vec_below(k, n);
            let d = v[0];
            v.push(d);
            (v, "duplicated")
        }
        3 => {
            // one identifier past the end (just past it, far past it, or the largest integer), at any position
            let mut v = if n > 0 { let k = r.small(3); r.vec_below(k, n) } else { vec![] };
            let bad = match r.below(6) { 0 | 1 => n, 2 => n + 1, 3 => n + 1000, 4 => usize::MAX, _ => n + r.below(3) };
            let at = r.below(v.len() + 1);
            v.insert(at, bad);
            (v, "out_of_range")
        }
        4 if n > 0 => ((0..n).collect(), "all"),
        _ if n > 0 => { let k = r.range(1, 3); (r.vec_below(k, n), "valid") }
        _ => (vec![], "empty"),
    }
}

impl C11 {
    fn history(&self, ctx: &mut Ctx, r: &mut Rng, open: bool, fixed_first: Option<Vec<&'static str>>) {
        let mut m: PL = if r.chance(1, 2) { PLax::empty() } else { gen::lax(r, &OhParams::tiny(), 2, false) };
        if !open {
            m.s = vec![];
            m.t = vec![];
        }
        let mut f: L = to_lax(&m);
        let mut log: Vec<String> = vec![];
        let steps = r.range(30, 60);
        let mut unified = false;
        let mut deleted_after_unify = false;
        let mut forced = fixed_first.unwrap_or_default();
        forced.reverse();
        for _ in 0..steps {
            let op = match forced.pop() {
                Some(o) => o,
                None => *r.pick(&["new_node", "new_node", "new_edge", "new_edge", "new_operation", "add_edge_source", "add_edge_target", "unify", "unify",
                                   "delete_nodes", "delete_edges", "relabel_nodes", "relabel_edges", "iface", "iface"]),
            };
            let n = m.w.len();
            let ne = m.e.len();
            match op {
                "new_node" => {
                    let l = r.below(3) as u32;
                    log.push(format!("new_node({})", l));
                    let id = if open { f.new_node(l) } else { f.hypergraph.new_node(l) };
                    m.w.push(l);
                    ctx.api("new_node");
                    ctx.check(id.0 == n, "new_node/fresh-id/value/any", || json!({"log": log, "observed": id.0, "expected": n}));
                }
                "new_edge" => {
                    if n == 0 { continue; }
                    let (a, b) = (r.small(3), r.small(3));
                    let (s, t) = (r.vec_below(a, n), r.vec_below(b, n));
                    let l = r.below(4) as u64;
                    log.push(format!("new_edge({}, {:?}, {:?})", l, s, t));
                    // the interface may be given as a struct, as a pair of vectors or as a pair of slices
                    let id = match r.below(3) {
                        0 => if open { f.new_edge(l, Hyperedge { sources: nid(&s), targets: nid(&t) }) } else { f.hypergraph.new_edge(l, Hyperedge { sources: nid(&s), targets: nid(&t) }) },
                        1 => if open { f.new_edge(l, (nid(&s), nid(&t))) } else { f.hypergraph.new_edge(l, (nid(&s), nid(&t))) },
                        _ => { let (a, b) = (nid(&s), nid(&t)); f.new_edge(l, (&a[..], &b[..])) }
                    };
                    m.e.push(PEdge { l, s, t });
                    ctx.api("new_edge");
                    ctx.check(id.0 == ne, "new_edge/fresh-id/value/any", || json!({"log": log, "observed": id.0, "expected": ne}));
                }
                "new_operation" => {
                    let (a, b) = (r.small(3), r.small(3));
                    let st: Vec<u32> = (0..a).map(|_| r.below(3) as u32).collect();
                    let tt: Vec<u32> = (0..b).map(|_| r.below(3) as u32).collect();
                    let l = r.below(4) as u64;
                    log.push(format!("new_operation({}, {:?}, {:?})", l, st, tt));
                    let (eid, (s, t)) = if open { f.new_operation(l, st.clone(), tt.clone()) } else { f.hypergraph.new_operation(l, st.clone(), tt.clone()) };
                    ctx.api("new_operation");
                    let os: Vec<usize> = s.iter().map(|v| v.0).collect();
                    let ot: Vec<usize> = t.iter().map(|v| v.0).collect();
                    // the returned node identifiers are fresh: together exactly n..n+a+b, each once (in which order the
                    // source and target nodes are allocated is not prescribed); the model follows the returned ids
                    let mut all: Vec<usize> = os.iter().chain(ot.iter()).cloned().collect();
                    all.sort();
                    let fresh = eid.0 == ne && os.len() == a && ot.len() == b && all == (n..n + a + b).collect::<Vec<_>>();
                    if !ctx.check(fresh, "new_operation/fresh-ids/value/any", || json!({"log": log, "observed": [os.clone(), ot.clone()], "expected": "the ids n..n+a+b, each once"})) {
                        return;
                    }
                    let mut labels = vec![0u32; a + b];
                    for (k, &v) in os.iter().enumerate() { labels[v - n] = st[k]; }
                    for (k, &v) in ot.iter().enumerate() { labels[v - n] = tt[k]; }
                    m.w.extend(labels);
                    m.e.push(PEdge { l, s: os.clone(), t: ot.clone() });
                }
                "add_edge_source" | "add_edge_target" => {
                    if ne == 0 { continue; }
                    let k = r.below(ne);
                    let l = r.below(3) as u32;
                    log.push(format!("{}({}, {})", op, k, l));
                    let id = match (op == "add_edge_source", open) {
                        (true, true) => f.add_edge_source(EdgeId(k), l),
                        (true, false) => f.hypergraph.add_edge_source(EdgeId(k), l),
                        (false, true) => f.add_edge_target(EdgeId(k), l),
                        (false, false) => f.hypergraph.add_edge_target(EdgeId(k), l),
                    };
                    m.w.push(l);
                    if op == "add_edge_source" { m.e[k].s.push(n) } else { m.e[k].t.push(n) }
                    ctx.api(op);
                    ctx.check(id.0 == n, &format!("{}/fresh-id/value/any", op), || json!({"log": log, "observed": id.0, "expected": n}));
                }
                "unify" => {
                    if n == 0 { continue; }
                    let (a, b) = (r.below(n), r.below(n));
                    log.push(format!("unify({}, {})", a, b));
                    if open { f.unify(NodeId(a), NodeId(b)) } else { f.hypergraph.unify(NodeId(a), NodeId(b)) };
                    m.q.push((a, b));
                    unified = true;
                    ctx.api("unify");
                }
                "delete_nodes" => {
                    let (ids, kind) = ids_arg(r, n);
                    log.push(format!("delete_nodes({:?})", ids));
                    ctx.class(&format!("delete_nodes_{}", kind));
                    ctx.api("delete_nodes");
                    if kind == "out_of_range" {
                        // rejection is a documented panic: run on a clone, the history continues on the original
                        let mut c = f.clone();
                        let res = guard(|| c.delete_nodes(&nid(&ids)));
                        ctx.check(res.is_err(), "delete_nodes/rejects-out-of-range/value/any", || json!({"log": log, "observed": "accepted"}));
                        continue;
                    }
                    // special classes
                    if ids.iter().any(|i| m.s.contains(i) && m.t.contains(i) && m.q.iter().any(|&(a, b)| a == *i || b == *i)) {
                        ctx.class("delete_node_on_both_interfaces_and_in_pending_pair");
                    }
                    if unified && !ids.is_empty() {
                        deleted_after_unify = true;
                    }
                    let res = guard(|| if open { f.delete_nodes(&nid(&ids)) } else { f.hypergraph.delete_nodes(&nid(&ids)) });
                    if must_return(ctx, "delete_nodes", kind, res, || json!({"log": log})).is_none() {
                        return;
                    }
                    model_delete_nodes(&mut m, &ids);
                }
                "delete_edges" => {
                    let (ids, kind) = ids_arg(r, ne);
                    log.push(format!("delete_edges({:?})", ids));
                    ctx.class(&format!("delete_edges_{}", kind));
                    ctx.api("delete_edges");
                    let eids: Vec<EdgeId> = ids.iter().map(|&i| EdgeId(i)).collect();
                    if kind == "out_of_range" {
                        let mut c = f.clone();
                        let res = guard(|| c.delete_edges(&eids));
                        ctx.check(res.is_err(), "delete_edges/rejects-out-of-range/value/any", || json!({"log": log, "observed": "accepted"}));
                        continue;
                    }
                    let res = guard(|| if open { f.delete_edges(&eids) } else { f.hypergraph.delete_edges(&eids) });
                    if must_return(ctx, "delete_edges", kind, res, || json!({"log": log})).is_none() {
                        return;
                    }
                    model_delete_edges(&mut m, &ids);
                }
                "relabel_nodes" => {
                    ctx.api("with_nodes/map_nodes");
                    match r.below(3) {
                        0 => {
                            log.push("map_nodes(+1 mod 3)".into());
                            f = f.map_nodes(|x| (x + 1) % 3);
                            for l in m.w.iter_mut() { *l = (*l + 1) % 3; }
                        }
                        1 => {
                            log.push("with_nodes(reverse-labels)".into());
                            match f.clone().with_nodes(|v| v.into_iter().rev().collect::<Vec<u32>>()) {
                                Some(g) => { f = g; m.w.reverse(); }
                                None => { ctx.check(false, "with_nodes/some-iff-same-length/value/same_length", || json!({"log": log})); return; }
                            }
                        }
                        _ => {
                            log.push("with_nodes(wrong length)".into());
                            let res = f.clone().with_nodes(|mut v| { v.push(0); v });
                            ctx.check(res.is_none(), "with_nodes/some-iff-same-length/value/longer", || json!({"log": log}));
                            if n > 0 {
                                let res = f.clone().with_nodes(|mut v| { v.pop(); v });
                                ctx.check(res.is_none(), "with_nodes/some-iff-same-length/value/shorter", || json!({"log": log}));
                                let res = f.clone().with_nodes(|_| Vec::<u32>::new());
                                ctx.check(res.is_none(), "with_nodes/some-iff-same-length/value/emptied", || json!({"log": log}));
                            }
                            // a relabelling may change the label type
                            let res = f.clone().with_nodes(|v| v.iter().map(|x| format!("n{}", x)).collect::<Vec<String>>());
                            let want: Vec<String> = m.w.iter().map(|x| format!("n{}", x)).collect();
                            ctx.check(matches!(&res, Some(g) if g.hypergraph.nodes == want && g.hypergraph.edges == f.hypergraph.edges && g.hypergraph.adjacency == f.hypergraph.adjacency && g.hypergraph.quotient == f.hypergraph.quotient && g.sources == f.sources && g.targets == f.targets),
                                "with_nodes/relabels-only-the-nodes/value/type_changing", || json!({"log": log}));
                        }
                    }
                }
                "relabel_edges" => {
                    ctx.api("with_edges/map_edges");
                    match r.below(3) {
                        0 => {
                            log.push("map_edges(+1 mod 4)".into());
                            f = f.map_edges(|x| (x + 1) % 4);
                            for e in m.e.iter_mut() { e.l = (e.l + 1) % 4; }
                        }
                        1 => {
                            log.push("with_edges(all 7)".into());
                            match f.clone().with_edges(|v| v.iter().map(|_| 7u64).collect::<Vec<u64>>()) {
                                Some(g) => { f = g; for e in m.e.iter_mut() { e.l = 7; } }
                                None => { ctx.check(false, "with_edges/some-iff-same-length/value/same_length", || json!({"log": log})); return; }
                            }
                        }
                        _ => {
                            log.push("with_edges(wrong length)".into());
                            let res = f.clone().with_edges(|mut v| { v.pop(); v.push(1); v.push(2); v });
                            ctx.check(res.is_none(), "with_edges/some-iff-same-length/value/longer", || json!({"log": log}));
                            if ne > 0 {
                                let res = f.clone().with_edges(|mut v| { v.pop(); v });
                                ctx.check(res.is_none(), "with_edges/some-iff-same-length/value/shorter", || json!({"log": log}));
                            }
                            let res = f.clone().map_edges(|x| format!("op{}", x));
                            let want: Vec<String> = m.e.iter().map(|e| format!("op{}", e.l)).collect();
                            ctx.check(res.hypergraph.edges == want && res.hypergraph.nodes == f.hypergraph.nodes && res.hypergraph.adjacency == f.hypergraph.adjacency && res.sources == f.sources && res.targets == f.targets,
                                "map_edges/relabels-only-the-edges/value/type_changing", || json!({"log": log}));
                        }
                    }
                }
                _ => {
                    // grow an interface through the public fields (open variant only)
                    if !open || n == 0 { continue; }
                    let v = r.below(n);
                    if r.chance(1, 2) { f.sources.push(NodeId(v)); m.s.push(v); log.push(format!("sources.push({})", v)); }
                    else { f.targets.push(NodeId(v)); m.t.push(v); log.push(format!("targets.push({})", v)); }
                }
            }
            ctx.count("events:history_steps");
            let now = from_lax_raw(&f);
            if !ctx.check(now == m && f.hypergraph.edges.len() == f.hypergraph.adjacency.len(), "history/refines-list-model/value/any", || {
                json!({"log": log, "observed": show_lax(&now), "expected": show_lax(&m)})
            }) {
                return;
            }
        }
        if deleted_after_unify {
            ctx.class("deletion_after_unify");
            ctx.nontrivial(&log);
        }
        // persisted format
        self.serde(ctx, &f, &m, &log);
        ctx.sample(if open { "history_open" } else { "history_hypergraph" }, || json!({"log": log, "final": show_lax(&m)}));
    }

    /// the same deletion calls on a bare lax::Hypergraph, including the witness
    fn hypergraph_deletions(&self, ctx: &mut Ctx, r: &mut Rng) {
        let mut m = gen::lax(r, &OhParams::small(), 4, false);
        m.s = vec![];
        m.t = vec![];
        let mut h: lax::Hypergraph<u32, u64> = to_lax(&m).hypergraph;
        let mut log = vec![format!("start {}", show_lax(&m))];
        for _ in 0..r.range(1, 4) {
            let n = m.w.len();
            let (ids, kind) = ids_arg(r, n);
            log.push(format!("delete_nodes_witness({:?})", ids));
            ctx.api("Hypergraph::delete_nodes_witness");
            if kind == "out_of_range" {
                let mut c = h.clone();
                let res = guard(|| c.delete_nodes_witness(&nid(&ids)));
                ctx.check(res.is_err(), "delete_nodes_witness/rejects-out-of-range/value/any", || json!({"log": log}));
                let mut c = h.clone();
                let res = guard(|| c.delete_nodes(&nid(&ids)));
                ctx.check(res.is_err(), "Hypergraph::delete_nodes/rejects-out-of-range/value/any", || json!({"log": log}));
                continue;
            }
            // delete_nodes on a clone must agree with the witness variant
            let mut c = h.clone();
            let r2 = guard(|| c.delete_nodes(&nid(&ids)));
            let res = guard(|| h.delete_nodes_witness(&nid(&ids)));
            let wit = match must_return(ctx, "delete_nodes_witness", kind, res, || json!({"log": log})) {
                Some(w) => w,
                None => return,
            };
            let want = model_delete_nodes(&mut m, &ids);
            ctx.check(wit == want, "delete_nodes_witness/reports-the-renumbering/value/any", || json!({"log": log, "observed": format!("{:?}", wit), "expected": format!("{:?}", want)}));
            let wrapped = lax::OpenHypergraph { sources: vec![], targets: vec![], hypergraph: h.clone() };
            let now = from_lax_raw(&wrapped);
            if !ctx.check(now == m, "Hypergraph::delete_nodes_witness/refines-list-model/value/any", || json!({"log": log, "observed": show_lax(&now), "expected": show_lax(&m)})) {
                return;
            }
            ctx.check(r2.is_ok() && c == h, "Hypergraph::delete_nodes/same-as-witness-variant/value/any", || json!({"log": log}));
            // edges
            let ne = m.e.len();
            let (ids, kind) = ids_arg(r, ne);
            if kind == "out_of_range" {
                let eids: Vec<EdgeId> = ids.iter().map(|&i| EdgeId(i)).collect();
                let mut c = h.clone();
                let res = guard(|| c.delete_edges(&eids));
                ctx.check(res.is_err(), "Hypergraph::delete_edges/rejects-out-of-range/value/any", || json!({"log": log, "ids": ids}));
                let mut c = h.clone();
                let res = guard(|| crate::compat::delete_edge_alias(&mut c, &eids));
                ctx.check(!matches!(res, Ok(Some(()))), "Hypergraph::delete_edge(alias)/rejects-out-of-range/value/any", || json!({"log": log, "ids": ids}));
                ctx.class("hypergraph_delete_edges_out_of_range");
            }
            if kind != "out_of_range" {
                log.push(format!("delete_edges({:?})", ids));
                let eids: Vec<EdgeId> = ids.iter().map(|&i| EdgeId(i)).collect();
                // half of the time through the deprecated alias
                let alias = r.chance(1, 2);
                let res = if alias && cfg!(has_delete_edge_alias) { ctx.api("Hypergraph::delete_edge(alias)"); guard(|| { crate::compat::delete_edge_alias(&mut h, &eids); }) } else { guard(|| h.delete_edges(&eids)) };
                if must_return(ctx, "Hypergraph::delete_edges", kind, res, || json!({"log": log})).is_none() {
                    return;
                }
                model_delete_edges(&mut m, &ids);
                let wrapped = lax::OpenHypergraph { sources: vec![], targets: vec![], hypergraph: h.clone() };
                if !ctx.check(from_lax_raw(&wrapped) == m, "Hypergraph::delete_edges/refines-list-model/value/any", || json!({"log": log})) {
                    return;
                }
            }
        }
        ctx.nontrivial(&log);
        ctx.sample("hypergraph_deletions", || json!({"log": log}));
    }

    /// node on both interfaces and in a pending pair is deleted; all nodes / all edges deleted; delete then add
    fn fixed_scenario(&self, ctx: &mut Ctx) {
        let e = |l: u64, s: &[usize], t: &[usize]| PEdge { l, s: s.to_vec(), t: t.to_vec() };
        let start: PL = PLax { w: vec![0, 1, 0], e: vec![e(0, &[1, 1], &[0, 1]), e(1, &[2], &[])], s: vec![1, 0], t: vec![1, 2], q: vec![(1, 2), (0, 0), (2, 1)] };
        for ids in [vec![1usize], vec![1, 1, 0], vec![0, 1, 2], vec![]] {
            let mut m = start.clone();
            let mut f: L = to_lax(&m);
            let log = vec![format!("start {}", show_lax(&m)), format!("delete_nodes({:?})", ids)];
            if ids.contains(&1) {
                ctx.class("delete_node_on_both_interfaces_and_in_pending_pair");
            }
            let res = guard(|| f.delete_nodes(&nid(&ids)));
            if must_return(ctx, "delete_nodes", "fixed", res, || json!({"log": log})).is_none() {
                continue;
            }
            model_delete_nodes(&mut m, &ids);
            let now = from_lax_raw(&f);
            ctx.check(now == m, "history/refines-list-model/value/fixed", || json!({"log": log, "observed": show_lax(&now), "expected": show_lax(&m)}));
            // delete then add: fresh identifiers continue from the new length
            let id = f.new_node(2);
            m.w.push(2);
            ctx.check(id.0 == m.w.len() - 1, "new_node/fresh-id/value/after_deletion", || json!({"log": log, "observed": id.0}));
            let eids: Vec<EdgeId> = (0..m.e.len()).map(EdgeId).collect();
            let res = guard(|| f.delete_edges(&eids));
            if must_return(ctx, "delete_edges", "fixed", res, || json!({"log": log})).is_some() {
                m.e.clear();
                ctx.check(from_lax_raw(&f) == m, "history/refines-list-model/value/fixed_all_edges", || json!({"log": log}));
            }
            self.serde(ctx, &f, &m, &log);
            ctx.nontrivial(&log);
        }
        ctx.sample("fixed_scenario", || json!({"start": show_lax(&start)}));
    }

    fn serde(&self, ctx: &mut Ctx, f: &L, m: &PL, log: &[String]) {
        ctx.api("serde_json");
        let text = match guard(|| serde_json::to_string(f)) {
            Ok(Ok(t)) => t,
            other => {
                ctx.check(false, "serde/serialises/value/any", || json!({"log": log, "observed": format!("{:?}", other.map(|r| r.map_err(|e| e.to_string())).map_err(|p| p.msg))}));
                return;
            }
        };
        let val: Value = serde_json::from_str(&text).unwrap_or(Value::Null);
        // every documented key must be present with the documented value (further keys are not judged)
        ctx.check(json_contains(&val, &expected_json(m)), "serde/documented-field-names/value/any", || json!({"log": log, "observed": val, "expected_keys_and_values": expected_json(m)}));
        match guard(|| serde_json::from_str::<L>(&text)) {
            Ok(Ok(back)) => {
                ctx.check(back == *f && from_lax_raw(&back) == *m && lax_lens(&back) == plax_lens(m), "serde/round-trip-unchanged/value/any", || json!({"log": log, "text": text}));
            }
            _ => {
                ctx.check(false, "serde/deserialises/value/any", || json!({"log": log, "text": text}));
            }
        }
        // the README's shape must be accepted as input
        let readme_shape = expected_json(m).to_string();
        match guard(|| serde_json::from_str::<L>(&readme_shape)) {
            Ok(Ok(back)) => {
                ctx.check(back == *f && from_lax_raw(&back) == *m && lax_lens(&back) == plax_lens(m), "serde/reads-documented-format/value/any", || json!({"log": log, "text": readme_shape}));
            }
            _ => {
                ctx.check(false, "serde/reads-documented-format/value/any", || json!({"log": log, "text": readme_shape}));
            }
        }
    }
}

#[derive(serde::Serialize, serde::Deserialize, Debug, Clone, PartialEq)]
enum ReadmeTy {
    Interval { lower: i64, upper: i64 },
    Int,
}
#[derive(serde::Serialize, serde::Deserialize, Debug, Clone, PartialEq)]
enum ReadmeOp {
    Cast,
    Neg,
    Add,
}

const README_JSON: &str = r#"{
    "sources": [3,0],
    "targets": [4],
    "hypergraph": {
        "nodes":[
            {"Interval":{"lower":0,"upper":1}},
            "Int","Int","Int","Int"
        ],
        "edges": ["Cast","Neg","Add"],
        "adjacency": [
            {"sources":[0],"targets":[1]},
            {"sources":[1],"targets":[2]},
            {"sources":[3,2],"targets":[4]}
        ],
        "quotient":[[],[]]
    }
}"#;

impl C11 {
    /// the README's example, verbatim, with enum label types (one of them a struct variant); and the
    /// persisted form of the building blocks on their own
    fn readme_example(&self, ctx: &mut Ctx) {
        type LR = lax::OpenHypergraph<ReadmeTy, ReadmeOp>;
        ctx.api("serde_json");
        ctx.class("readme_example_with_enum_labels");
        let parsed = guard(|| serde_json::from_str::<LR>(README_JSON));
        match parsed {
            Ok(Ok(f)) => {
                use ReadmeTy::*;
                let h = &f.hypergraph;
                let adj: Vec<(Vec<usize>, Vec<usize>)> = h.adjacency.iter().map(|a| (a.sources.iter().map(|v| v.0).collect(), a.targets.iter().map(|v| v.0).collect())).collect();
                let ok = f.sources == vec![NodeId(3), NodeId(0)]
                    && f.targets == vec![NodeId(4)]
                    && h.nodes == vec![Interval { lower: 0, upper: 1 }, Int, Int, Int, Int]
                    && h.edges == vec![ReadmeOp::Cast, ReadmeOp::Neg, ReadmeOp::Add]
                    && adj == vec![(vec![0], vec![1]), (vec![1], vec![2]), (vec![3, 2], vec![4])]
                    && h.quotient.0.is_empty()
                    && h.quotient.1.is_empty();
                ctx.check(ok, "serde/reads-documented-format/value/readme_example", || json!({"observed": format!("{:?}", f)}));
                match guard(|| serde_json::to_value(&f)) {
                    Ok(Ok(v)) => {
                        let want: Value = serde_json::from_str(README_JSON).unwrap();
                        ctx.check(json_contains(&v, &want), "serde/documented-field-names/value/readme_example", || json!({"observed": v, "expected_keys_and_values": want}));
                        let back = guard(|| serde_json::from_value::<LR>(v.clone()));
                        ctx.check(matches!(&back, Ok(Ok(b)) if *b == f), "serde/round-trip-unchanged/value/readme_example", || json!({"text": v}));
                    }
                    _ => {
                        ctx.check(false, "serde/serialises/value/readme_example", || json!({}));
                    }
                }
            }
            other => {
                ctx.check(false, "serde/reads-documented-format/value/readme_example", || json!({"observed": format!("{:?}", other.map(|r| r.map(|_| ()).map_err(|e| e.to_string())).map_err(|p| p.msg))}));
            }
        }
        // identifiers are bare integers; a hyperedge and a bare hypergraph round-trip on their own
        let ids = guard(|| (serde_json::to_string(&NodeId(7)).ok(), serde_json::to_string(&EdgeId(3)).ok(), serde_json::from_str::<EdgeId>("3").ok(), serde_json::from_str::<NodeId>("7").ok()));
        ctx.check(matches!(&ids, Ok((Some(a), Some(b), Some(EdgeId(3)), Some(NodeId(7)))) if a == "7" && b == "3"), "serde/identifiers-are-bare-integers/value/any", || json!({"observed": format!("{:?}", ids.as_ref().ok())}));
        let e = Hyperedge { sources: vec![NodeId(1), NodeId(1)], targets: vec![] };
        let ev = guard(|| serde_json::to_value(&e).ok());
        ctx.check(matches!(&ev, Ok(Some(v)) if json_contains(v, &json!({"sources": [1, 1], "targets": []}))), "serde/documented-field-names/value/hyperedge", || json!({"observed": format!("{:?}", ev.as_ref().ok())}));
        let hg: lax::Hypergraph<u32, u64> = lax::Hypergraph { nodes: vec![0, 1], edges: vec![5], adjacency: vec![e.clone()], quotient: (vec![NodeId(0)], vec![NodeId(1)]) };
        let rt = guard(|| serde_json::to_string(&hg).ok().and_then(|t| serde_json::from_str::<lax::Hypergraph<u32, u64>>(&t).ok()));
        ctx.check(matches!(&rt, Ok(Some(b)) if *b == hg && b.nodes == hg.nodes && b.edges == hg.edges && b.adjacency == hg.adjacency && b.quotient == hg.quotient), "serde/round-trip-unchanged/value/bare_hypergraph", || json!({}));
        ctx.nontrivial(&"readme");
        ctx.sample("readme_example", || json!({"text": README_JSON}));
    }
}

impl Monitor for C11 {
    fn id(&self) -> &'static str {
        "C11"
    }
    fn rule(&self) -> &'static str {
        "cases: histories of 30-60 builder calls (new_node, new_edge, new_operation, add_edge_source, add_edge_target, unify, delete_nodes, delete_edges, map_nodes / with_nodes, map_edges / \
         with_edges, interface growth through the public fields) on lax::OpenHypergraph starting from the empty diagram or a generated one, plus deletion sequences with the renumbering witness on \
         a bare lax::Hypergraph. Deletion arguments are valid, duplicated, empty, all, or out of range (the latter run on a clone and must be rejected by a panic). After every step all public \
         fields are compared with a list-based shadow model replayed in lock-step and returned identifiers / renumberings with the model's. At the end of each history the diagram is serialised \
         with serde_json: the JSON value must equal the documented shape (sources, targets, hypergraph{nodes, edges, adjacency[{sources, targets}], quotient}, node ids as bare integers), \
         must deserialise back to an equal diagram, and the documented shape must be readable. non-trivial = history with >=1 deletion after >=1 unify; distinct = hash of the step log. Also: hyperedge interfaces given as struct / pair of vectors / pair of slices, builder calls on the bare lax::Hypergraph, shorter / emptied / type-changing relabels, out-of-range identifiers at any position (just past the end, far past it, usize::MAX) for both deletion levels and the deprecated alias, the README's JSON example verbatim with enum label types, identifiers / hyperedge / bare hypergraph serialised on their own."
    }
    fn corpus_len(&self) -> u64 {
        5
    }
    fn floors(&self) -> Vec<(&'static str, u64)> {
        vec![
            ("events:history_steps", 5000),
            ("class:deletion_after_unify", 100),
            ("class:delete_nodes_valid", 100),
            ("class:delete_nodes_duplicated", 50),
            ("class:delete_nodes_out_of_range", 50),
            ("class:delete_nodes_all", 20),
            ("class:delete_nodes_empty", 20),
            ("class:delete_edges_valid", 100),
            ("class:delete_edges_out_of_range", 50),
            ("class:delete_edges_all", 20),
            ("class:delete_node_on_both_interfaces_and_in_pending_pair", 5),
            ("api:Hypergraph::delete_nodes_witness", 50),
            ("api:serde_json", 100),
            ("class:readme_example_with_enum_labels", 1),
            ("class:hypergraph_delete_edges_out_of_range", 20),
            ("api:add_edge_source", 100),
            ("api:add_edge_target", 100),
            ("api:new_operation", 100),
            ("api:with_nodes/map_nodes", 100),
            ("api:with_edges/map_edges", 100),
        ]
    }
    fn run_case(&self, idx: u64, r: &mut Rng, ctx: &mut Ctx) {
        match idx {
            0 => self.history(ctx, r, true, Some(vec!["new_node", "new_node", "iface", "iface", "unify", "delete_nodes", "new_node", "new_edge"])),
            1 => self.history(ctx, r, true, Some(vec!["new_operation", "unify", "delete_edges", "new_operation", "delete_nodes"])),
            2 => self.hypergraph_deletions(ctx, r),
            3 => self.fixed_scenario(ctx),
            4 => self.readme_example(ctx),
            _ => match r.below(6) {
                0 => self.hypergraph_deletions(ctx, r),
                1 => self.history(ctx, r, false, None),
                _ => self.history(ctx, r, true, None),
            },
        }
    }
}
