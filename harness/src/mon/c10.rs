//! C10 Lax and strict representations agree and convert losslessly.

use super::common::*;
use crate::conv::*;
use crate::ctx::*;
use crate::gen::{self, OhParams, P, PL};
use crate::model::*;
use crate::rng::Rng;
use open_hypergraphs::category::{Arrow, Monoidal, Spider, SymmetricMonoidal};
use open_hypergraphs::lax;
use serde_json::{json, Value};

pub struct C10;

type S = SOh<u32, u64>;
type L = LOh<u32, u64>;

/// strictify a lax library value through the library and return the plain form
fn strictified(ctx: &mut Ctx, api: &str, class: &str, f: &L, input: &dyn Fn() -> Value) -> Option<P> {
    let g = f.clone();
    let s = lib(ctx, "to_strict", class, input, move || g.to_strict())?;
    walk(ctx, api, class, &s, input)
}

/// nodes, hyperedges and interfaces equal field for field; pending pairs equal as a multiset of
/// unordered pairs (neither the list order nor the orientation of a pair carries meaning)
fn same_lax_up_to_pairs(a: &PL, b: &PL) -> bool {
    let norm = |q: &Vec<(usize, usize)>| { let mut v: Vec<(usize, usize)> = q.iter().map(|&(x, y)| (x.min(y), x.max(y))).collect(); v.sort(); v };
    a.w == b.w && a.e == b.e && a.s == b.s && a.t == b.t && norm(&a.q) == norm(&b.q)
}

impl C10 {
    fn round_trips(&self, ctx: &mut Ctx, r: &mut Rng, fixed: Option<P>) {
        let f = fixed.unwrap_or_else(|| {
            let pa = if r.chance(1, 20) { ctx.class("round_trip_of_a_medium_diagram"); OhParams::medium() } else if r.chance(1, 2) { OhParams::small() } else { OhParams::dense() };
            gen::oh(r, &pa)
        });
        let input = || json!({"f": show(&f)});
        if !f.e.is_empty() && (!f.s.is_empty() || !f.t.is_empty()) {
            ctx.nontrivial(&("roundtrip", &f));
        }
        // strict -> lax -> strict
        let lf = to_strict(&f);
        if let Some(l) = lib(ctx, "from_strict", "any", &input, || L::from_strict(lf)) {
            ctx.count("wf:walked");
            let pl = from_lax_raw(&l);
            ctx.check(pl == f.to_lax() && wf_lax(&l).is_empty(), "from_strict/same-data/value/any", || json!({"input": input(), "observed": show_lax(&pl)}));
            ctx.check(l.hypergraph.is_strict(), "is_strict/true-without-pending-unifications/value/any", || json!({"input": input()}));
            if let Some(back) = lib(ctx, "to_strict", "any", &input, || l.to_strict()) {
                if let Some(pb) = walk(ctx, "to_strict", "any", &back, &input) {
                    ctx.count("law:strict-lax-strict");
                    expect_equal(ctx, "to_strict∘from_strict", "round-trip-unchanged", "any", &pb, &f, &input);
                }
            }
        }
        // deprecated alias of to_strict
        {
            let l1 = to_lax(&f.to_lax());
            let l2 = l1.clone();
            let a = lib(ctx, "to_open_hypergraph", "any", &input, move || crate::compat::to_open_hypergraph(l1)).flatten();
            let b = lib(ctx, "to_strict", "any", &input, move || l2.to_strict());
            if let (Some(a), Some(b)) = (a, b) {
                let (pa, pb) = (from_strict(&a).ok(), from_strict(&b).ok());
                ctx.check(pa.is_some() && pa == pb, "to_open_hypergraph/same-as-to_strict/value/any", || json!({"input": input()}));
            }
        }
        // quotient-free lax -> strict -> lax
        let g = to_lax(&f.to_lax());
        let g2 = g.clone();
        if let Some(s) = lib(ctx, "to_strict", "any", &input, move || g2.to_strict()) {
            if let Some(back) = lib(ctx, "from_strict", "any", &input, || L::from_strict(s)) {
                ctx.count("law:lax-strict-lax");
                ctx.check(back == g && from_lax_raw(&back) == f.to_lax() && wf_lax(&back).is_empty(), "from_strict∘to_strict/round-trip-unchanged/value/quotient_free", || json!({"input": input(), "observed": show_lax(&from_lax_raw(&back))}));
            }
        }
        // the same round trips over labels whose equality is coarser than identity: "unchanged" includes which of
        // several equal labels sits on which node
        {
            let ft: POh<Tag, u64> = f.map_labels(|o| Tag { sort: *o, id: 0 }, |a| *a);
            let ft = POh { w: ft.w.iter().enumerate().map(|(i, t)| Tag { sort: t.sort, id: i as u32 }).collect(), ..ft };
            let ids = |w: &Vec<Tag>| -> Vec<(u32, u32)> { w.iter().map(|t| (t.sort, t.id)).collect() };
            let ls = to_strict(&ft);
            if let Some(back) = lib(ctx, "to_strict∘from_strict", "coarse_equality_labels", &input, || lax::OpenHypergraph::from_strict(ls).to_strict()) {
                ctx.count("law:round-trip-keeps-label-identity");
                ctx.check(ids(&back.h.w.0 .0) == ids(&ft.w), "to_strict∘from_strict/round-trip-unchanged/value/coarse_equality_labels", || json!({"input": input(), "observed": format!("{:?}", back.h.w.0 .0)}));
            }
            let lx = to_lax(&ft.to_lax());
            if let Some(back) = lib(ctx, "from_strict∘to_strict", "coarse_equality_labels", &input, || lax::OpenHypergraph::from_strict(lx.to_strict())) {
                ctx.check(ids(&back.hypergraph.nodes) == ids(&ft.w), "from_strict∘to_strict/round-trip-unchanged/value/coarse_equality_labels", || json!({"input": input(), "observed": format!("{:?}", back.hypergraph.nodes)}));
            }
        }
        // hypergraph-level conversion
        let lf = to_strict(&f);
        if let Some(h) = lib(ctx, "Hypergraph::from_strict", "any", &input, || lax::Hypergraph::from_strict(lf.h)) {
            let wrapped = lax::OpenHypergraph { sources: vec![], targets: vec![], hypergraph: h };
            let mut want = f.to_lax();
            want.s = vec![];
            want.t = vec![];
            ctx.check(from_lax_raw(&wrapped) == want, "Hypergraph::from_strict/same-data/value/any", || json!({"input": input()}));
            if let Some(hs) = lib(ctx, "to_hypergraph", "any", &input, || wrapped.hypergraph.to_hypergraph()) {
                let o = open_hypergraphs::strict::open_hypergraph::OpenHypergraph { s: ff(vec![], f.w.len()), t: ff(vec![], f.w.len()), h: hs };
                if let Some(p) = walk(ctx, "to_hypergraph", "any", &o, &input) {
                    let mut w2 = f.clone();
                    w2.s = vec![];
                    w2.t = vec![];
                    expect_equal(ctx, "to_hypergraph", "same-data", "any", &p, &w2, &input);
                }
            }
        }
        ctx.sample("round_trip", || input());
    }

    /// lax operands with label-consistent pending unifications
    fn lax_pair(&self, r: &mut Rng, matching: u8) -> (PL, PL) {
        let pa = if r.chance(1, 2) { OhParams::tiny() } else { OhParams { max_nodes: 5, max_edges: 4, max_arity: 3, max_iface: 3, node_labels: 2, edge_labels: 3 } };
        let f = gen::lax(r, &pa, 3, true);
        let fs = f.strict().expect("consistent").0;
        let mut g = gen::oh_with_source(r, &pa, &f.forget_q().tgt_type()).to_lax();
        // note: the boundary is typed by the *pre-quotient* labels, which equal the post-quotient ones
        let _ = fs;
        // consistent pending pairs on g
        let n = g.w.len();
        if n > 0 {
            for _ in 0..r.small(3) {
                let a = r.below(n);
                let c: Vec<usize> = (0..n).filter(|&i| g.w[i] == g.w[a]).collect();
                g.q.push((a, *r.pick(&c)));
            }
        }
        if matching == 0 && r.chance(1, 20) && !f.t.is_empty() {
            // right operand: an identity on f's target type whose wires (where the labels allow) were unified afterwards --
            // it looks like an identity and is a merging spider
            let ty = f.forget_q().tgt_type();
            let n = ty.len();
            let mut id = POh::<u32, u64>::identity(ty.clone()).to_lax();
            for i in 1..n {
                if ty[i] == ty[i - 1] && r.chance(2, 3) {
                    if r.chance(1, 2) { id.q.push((i - 1, i)) } else { id.q.push((i, i - 1)) }
                }
            }
            return (f, id);
        }
        match matching {
            0 => {}
            1 => {
                // arity matches, one label differs
                if !g.s.is_empty() {
                    let k = r.below(g.s.len());
                    g.w.push(g.w[g.s[k]] + 1 + r.below(2) as u32);
                    g.s[k] = g.w.len() - 1;
                }
            }
            _ => {
                // arity differs
                if !g.s.is_empty() && r.chance(1, 2) {
                    g.s.pop();
                } else if !g.w.is_empty() {
                    g.s.push(r.below(g.w.len()));
                }
            }
        }
        (f, g)
    }

    fn operations(&self, ctx: &mut Ctx, r: &mut Rng, fixed: Option<(PL, PL)>) {
        let matching = [0u8, 0, 0, 1, 2][r.below(5)];
        let (f, g) = fixed.unwrap_or_else(|| self.lax_pair(r, matching));
        let input = || json!({"f": show_lax(&f), "g": show_lax(&g)});
        let (lf, lg) = (to_lax(&f), to_lax(&g));
        let fo = f.forget_q();
        let go = g.forget_q();
        let types_match = fo.tgt_type() == go.src_type();
        let arity_match = f.t.len() == g.s.len();
        if !f.q.is_empty() && !g.q.is_empty() {
            ctx.class("pending_unifications_on_both_operands");
        }
        if g.e.is_empty() && !g.q.is_empty() && g.s == g.t && g.s.len() == g.w.len() {
            ctx.class("identity_shaped_operand_with_unified_wires");
        }
        if arity_match && !types_match {
            ctx.class("arity_match_label_mismatch");
        }
        if !arity_match {
            ctx.class("arity_mismatch");
        }
        if (!f.e.is_empty() || !g.e.is_empty()) && !f.t.is_empty() {
            ctx.nontrivial(&("ops", &f, &g));
        }
        let (sf_, sg_) = match (f.strict(), g.strict()) {
            (Ok(a), Ok(b)) => (a.0, b.0),
            _ => {
                ctx.inconclusive("generator produced inconsistent unifications");
                return;
            }
        };
        // each operand: the library's quotient-and-convert agrees with the model quotient
        for (name, l, m, pl) in [("f", &lf, &sf_, &f), ("g", &lg, &sg_, &g)] {
            // no pending pairs => strict; the converse (e.g. for trivial self pairs) is recorded only
            if pl.q.is_empty() {
                ctx.check(l.hypergraph.is_strict(), "is_strict/true-without-pending-unifications/value/operand", || json!({"input": input(), "operand": name}));
            } else {
                ctx.count(if l.hypergraph.is_strict() { "observed:is_strict_true_with_pending_pairs" } else { "observed:is_strict_false_with_pending_pairs" });
            }
            if let Some(p) = strictified(ctx, "to_strict", "operand", l, &input) {
                ctx.count("law:to_strict-is-the-model-quotient");
                expect_iso(ctx, "to_strict", "is-the-model-quotient", "operand", &p, m, &input);
            }
        }
        // over zero-sized labels only the arities decide: lax and strict composition must agree on definedness
        {
            let (uf, ug) = (PLax { w: vec![(); f.w.len()], e: f.e.clone(), s: f.s.clone(), t: f.t.clone(), q: f.q.clone() }, PLax { w: vec![(); g.w.len()], e: g.e.clone(), s: g.s.clone(), t: g.t.clone(), q: g.q.clone() });
            let (xuf, xug) = (to_lax(&uf), to_lax(&ug));
            let l = lib(ctx, "lax::compose<()>", "unit_labels", &input, || Arrow::compose(&xuf, &xug).is_some());
            let s_ = lib(ctx, "compose<()>", "unit_labels", &input, || xuf.clone().to_strict().compose(&xug.clone().to_strict()).is_some());
            ctx.count("law:unit-labels-definedness-agrees");
            ctx.check(l == Some(arity_match) && s_ == Some(arity_match), "compose/defined-iff-types-match/value/unit_labels", || json!({"input": input(), "lax_some": l, "strict_some": s_, "expected_some": arity_match}));
        }
        // compose: defined iff the types match
        if let Some(c) = lib(ctx, "lax::compose", "any", &input, || Arrow::compose(&lf, &lg)) {
            ctx.check(c.is_some() == types_match, "lax::compose/defined-iff-types-match/value/any", || json!({"input": input(), "observed_some": c.is_some(), "expected_some": types_match}));
            if let (Some(c), true) = (c, types_match) {
                ctx.count("law:strict-of-compose");
                if let Some(p) = strictified(ctx, "lax::compose", "any", &c, &input) {
                    let want = sf_.compose(&sg_).expect("types match");
                    expect_iso(ctx, "lax::compose", "strictify-commutes", "types_match", &p, &want, &input);
                }
                // and against the strict composite computed by the library
                let lhs = { let c2 = c.clone(); lib(ctx, "to_strict", "any", &input, move || c2.to_strict()) };
                let rhs = lib(ctx, "compose", "any", &input, || lf.clone().to_strict().compose(&lg.clone().to_strict())).flatten();
                law(ctx, "strict(f;g)=strict(f);strict(g)", "types_match", lhs, rhs, &input);
            }
        }
        // raw data of the lax composite: juxtaposition, one pending pair per boundary position, outer interfaces
        let raw_want: Option<PL> = if arity_match {
            let n = f.w.len();
            let mut w = f.tensor(&g);
            for (u, v) in f.t.iter().zip(g.s.iter()) {
                w.q.push((*u, v + n));
            }
            w.s = f.s.clone();
            w.t = g.t.iter().map(|v| v + n).collect();
            Some(w)
        } else {
            None
        };
        // `>>` sugar agrees with compose
        if let Some(c) = lib(ctx, "lax::shr", "any", &input, || &lf >> &lg) {
            ctx.check(c.is_some() == types_match, "lax::shr/defined-iff-types-match/value/any", || json!({"input": input(), "observed_some": c.is_some()}));
            if let (Some(c), Some(w), true) = (&c, &raw_want, types_match) {
                // how the composite is presented (which nodes are already merged, which pairs are pending, in what
                // order) is the implementation's business: well-formedness is demanded, the presentation only recorded
                let got = from_lax_raw(c);
                ctx.check(wf_lax(c).is_empty(), "lax::shr/well-formed/value/any", || json!({"input": input(), "observed": show_lax(&got)}));
                ctx.count(if same_lax_up_to_pairs(&got, w) { "observed:shr_is_juxtaposition_plus_boundary_pairs" } else { "observed:shr_presented_otherwise" });
                if let Some(p) = strictified(ctx, "lax::shr", "any", c, &input) {
                    let want = sf_.compose(&sg_).expect("types match");
                    expect_iso(ctx, "lax::shr", "strictify-commutes", "types_match", &p, &want, &input);
                }
            }
        }
        // lax_compose: defined iff the arities match
        if let Some(c) = lib(ctx, "lax_compose", "any", &input, || lf.lax_compose(&lg)) {
            ctx.check(c.is_some() == arity_match, "lax_compose/defined-iff-arities-match/value/any", || json!({"input": input(), "observed_some": c.is_some(), "expected_some": arity_match}));
            if let (Some(c), Some(w)) = (&c, &raw_want) {
                let got = from_lax_raw(c);
                let cls = if types_match { "types_match" } else { "label_mismatch" };
                ctx.check(wf_lax(c).is_empty(), &format!("lax_compose/well-formed/value/{}", cls), || json!({"input": input(), "observed": show_lax(&got)}));
                ctx.count(if same_lax_up_to_pairs(&got, w) { "observed:lax_compose_is_juxtaposition_plus_boundary_pairs" } else { "observed:lax_compose_presented_otherwise" });
                if !types_match {
                    // a boundary position joins two different labels; what the unchecked form then returns is not
                    // specified beyond being defined -- whether the mismatch surfaces at quotient() is recorded
                    let mut c2 = c.clone();
                    if let Some(q) = lib(ctx, "quotient", "label_mismatch", &input, || c2.quotient().is_ok()) {
                        ctx.count("law:label-mismatch-surfaces-at-quotient");
                        ctx.count(if q { "observed:label_mismatch_quotient_succeeded" } else { "observed:label_mismatch_quotient_failed" });
                    }
                }
            }
            if let (Some(c), true) = (c, types_match) {
                if let Some(p) = strictified(ctx, "lax_compose", "any", &c, &input) {
                    let want = sf_.compose(&sg_).expect("types match");
                    expect_iso(ctx, "lax_compose", "strictify-commutes", "types_match", &p, &want, &input);
                }
            }
        }
        // tensor
        if let Some(t) = lib(ctx, "lax::tensor", "any", &input, || lf.tensor(&lg)) {
            ctx.count("law:strict-of-tensor");
            if let Some(p) = strictified(ctx, "lax::tensor", "any", &t, &input) {
                expect_iso(ctx, "lax::tensor", "strictify-commutes", "any", &p, &sf_.tensor(&sg_), &input);
            }
        }
        // dagger
        if let Some(d) = lib(ctx, "lax::dagger", "any", &input, || Spider::dagger(&lf)) {
            if let Some(p) = strictified(ctx, "lax::dagger", "any", &d, &input) {
                expect_iso(ctx, "lax::dagger", "strictify-commutes", "any", &p, &sf_.dagger(), &input);
            }
        }
        // in-place variants produce exactly the same data as the pure ones
        if let Some(pure) = lib(ctx, "lax::tensor", "any", &input, || lf.tensor(&lg)) {
            let mut x = lf.clone();
            let y = lg.clone();
            if lib(ctx, "tensor_assign", "any", &input, || x.tensor_assign(y)).is_some() {
                ctx.count("law:tensor_assign=tensor");
                ctx.check(x == pure && same_lax_up_to_pairs(&from_lax_raw(&x), &from_lax_raw(&pure)) && lax_lens(&x) == lax_lens(&pure), "tensor_assign/same-data-as-tensor/value/any", || json!({"input": input(), "observed": show_lax(&from_lax_raw(&x)), "expected": show_lax(&from_lax_raw(&pure))}));
            }
            let mut x = lf.clone();
            let y = lg.clone();
            if let Some((s, t)) = lib(ctx, "append", "any", &input, || x.append(y)) {
                let n = f.w.len();
                let ws: Vec<usize> = g.s.iter().map(|&i| i + n).collect();
                let wt: Vec<usize> = g.t.iter().map(|&i| i + n).collect();
                let os: Vec<usize> = s.iter().map(|v| v.0).collect();
                let ot: Vec<usize> = t.iter().map(|v| v.0).collect();
                ctx.check(os == ws && ot == wt, "append/returns-offset-interfaces/value/any", || json!({"input": input(), "observed": [os.clone(), ot.clone()], "expected": [ws.clone(), wt.clone()]}));
                let raw_same = { let mut a = from_lax_raw(&x); let mut b = from_lax_raw(&pure); a.s = vec![]; a.t = vec![]; b.s = vec![]; b.t = vec![]; same_lax_up_to_pairs(&a, &b) && lax_lens(&x) == lax_lens(&pure) };
                ctx.check(raw_same && x.hypergraph == pure.hypergraph && x.sources == lf.sources && x.targets == lf.targets, "append/same-hypergraph-boundaries-untouched/value/any", || {
                    json!({"input": input(), "observed": show_lax(&from_lax_raw(&x))})
                });
            }
            let mut h = lf.hypergraph.clone();
            if lib(ctx, "coproduct_assign", "any", &input, || h.coproduct_assign(lg.hypergraph.clone())).is_some() {
                let wrap = |h: &lax::Hypergraph<u32, u64>| lax::OpenHypergraph { sources: vec![], targets: vec![], hypergraph: h.clone() };
                let (a, b) = (wrap(&h), wrap(&pure.hypergraph));
                ctx.check(h == pure.hypergraph && same_lax_up_to_pairs(&from_lax_raw(&a), &from_lax_raw(&b)) && lax_lens(&a) == lax_lens(&b), "coproduct_assign/same-data-as-coproduct/value/any", || json!({"input": input()}));
            }
        }
        ctx.sample("operations", || input());
    }

    fn constructors(&self, ctx: &mut Ctx, r: &mut Rng) {
        let a = gen::type_list(r, 4, 3);
        let b = gen::type_list(r, 4, 3);
        let l = r.below(3) as u64;
        let input = || json!({"a": a, "b": b, "label": l});
        ctx.nontrivial(&("ctor", &a, &b, l));
        // singleton
        let ls = lib(ctx, "lax::singleton", "objects", &input, || L::singleton(l, a.clone(), b.clone()));
        let ss = lib(ctx, "singleton", "objects", &input, || S::singleton(l, sf(a.clone()), sf(b.clone())));
        if let (Some(ls), Some(ss)) = (ls, ss) {
            ctx.count("law:strict-of-singleton");
            let want = POh::singleton(l, a.clone(), b.clone());
            if let Some(p) = strictified(ctx, "lax::singleton", "objects", &ls, &input) {
                expect_iso(ctx, "lax::singleton", "strictify-commutes", "objects", &p, &want, &input);
            }
            expect_diagram(ctx, "singleton", "is-one-operation", "objects", &ss, &want, &input);
        }
        // identity, twist
        if let Some(li) = lib(ctx, "lax::identity", "objects", &input, || <L as Arrow>::identity(a.clone())) {
            if let Some(p) = strictified(ctx, "lax::identity", "objects", &li, &input) {
                expect_iso(ctx, "lax::identity", "strictify-commutes", "objects", &p, &POh::identity(a.clone()), &input);
            }
        }
        if let Some(lt) = lib(ctx, "lax::twist", "objects", &input, || <L as SymmetricMonoidal>::twist(a.clone(), b.clone())) {
            if let Some(p) = strictified(ctx, "lax::twist", "objects", &lt, &input) {
                expect_iso(ctx, "lax::twist", "strictify-commutes", "objects", &p, &POh::twist(&a, &b), &input);
            }
        }
        // spider
        let n = a.len();
        let (ks, kt) = (r.small(4), r.small(4));
        let (s, t) = if n == 0 { (vec![], vec![]) } else { (r.vec_below(ks, n), r.vec_below(kt, n)) };
        let sp = lib(ctx, "lax::spider", "objects", &input, || <L as Spider<_>>::spider(ff(s.clone(), n), ff(t.clone(), n), a.clone()));
        if let Some(o) = &sp {
            ctx.check(o.is_some(), "lax::spider/defined-on-legs-into-the-node-list/value/objects", || json!({"input": input(), "s": s, "t": t}));
        }
        if let Some(sp) = sp.flatten() {
            if let Some(p) = strictified(ctx, "lax::spider", "objects", &sp, &input) {
                expect_iso(ctx, "lax::spider", "strictify-commutes", "objects", &p, &POh::spider(s.clone(), t.clone(), a.clone()), &input);
            }
        }
        // unit
        ctx.check(<L as Monoidal>::unit().is_empty(), "lax::unit/empty/value/objects", || json!({}));
        ctx.sample("constructors", || input());
    }
}

impl Monitor for C10 {
    fn id(&self) -> &'static str {
        "C10"
    }
    fn uses_iso(&self) -> bool {
        true
    }
    fn rule(&self) -> &'static str {
        "cases: fixed shapes (empty diagram, repeated incidences, zero-arity) then seeded (a) strict diagrams for strict->lax->strict and quotient-free lax->strict->lax round trips \
         (raw field equality), incl. the hypergraph-level conversions; (b) pairs of lax diagrams with label-consistent pending unifications on both operands whose boundaries match, \
         match in arity only (one label differs), or differ in arity: compose / >> defined iff types match, lax_compose iff arities match, strict(f;g) isomorphic to the model \
         composite and to strict(f);strict(g) computed by the library, same for tensor and dagger; tensor_assign / append / coproduct_assign compared by derived equality with the pure \
         operations, append must return exactly the offset interfaces; (c) singleton, identity, twist, spider and unit compared after strictification. non-trivial = >=1 hyperedge and \
         >=1 boundary node; distinct = hash of the instance. Also: every operand's to_strict is compared with the model quotient and is_strict with the absence of pending pairs; lax_compose and >> results are walked for well-formedness and judged after strictification; how the composite is presented (juxtaposition + one pending pair per boundary position, or otherwise) and whether a label mismatch surfaces at quotient() are recorded as observations, not demanded; in-place variants compared on raw fields; round trips of diagrams of up to 40 nodes."
    }
    fn corpus_len(&self) -> u64 {
        4
    }
    fn floors(&self) -> Vec<(&'static str, u64)> {
        vec![
            ("law:strict-lax-strict", 100),
            ("law:lax-strict-lax", 100),
            ("law:strict-of-compose", 100),
            ("law:strict-of-tensor", 100),
            ("law:strict-of-singleton", 50),
            ("law:tensor_assign=tensor", 100),
            ("class:pending_unifications_on_both_operands", 50),
            ("class:arity_match_label_mismatch", 30),
            ("class:arity_mismatch", 30),
            ("api:append", 100),
            ("api:coproduct_assign", 100),
            ("api:lax_compose", 100),
            ("law:round-trip-keeps-label-identity", 100),
            ("law:unit-labels-definedness-agrees", 100),
            ("class:identity_shaped_operand_with_unified_wires", 30),
            ("law:to_strict-is-the-model-quotient", 200),
            ("law:label-mismatch-surfaces-at-quotient", 30),
            ("class:round_trip_of_a_medium_diagram", 20),
        ]
    }
    fn run_case(&self, idx: u64, r: &mut Rng, ctx: &mut Ctx) {
        let e = |l: u64, s: &[usize], t: &[usize]| PEdge { l, s: s.to_vec(), t: t.to_vec() };
        match idx {
            0 => self.round_trips(ctx, r, Some(P::empty())),
            1 => self.round_trips(ctx, r, Some(POh { w: vec![0, 1], e: vec![e(0, &[0, 0, 1], &[1, 1]), e(1, &[], &[])], s: vec![0, 0], t: vec![1] })),
            2 => {
                let f: PL = PLax { w: vec![0, 0, 1], e: vec![e(0, &[0], &[2])], s: vec![0], t: vec![2, 1], q: vec![(0, 1)] };
                let g: PL = PLax { w: vec![1, 0, 0], e: vec![e(1, &[0, 1], &[2])], s: vec![0, 1], t: vec![2], q: vec![(1, 2), (2, 2)] };
                self.operations(ctx, r, Some((f, g)));
            }
            3 => {
                let f: PL = PLax::empty();
                self.operations(ctx, r, Some((f.clone(), f)));
            }
            _ => match r.below(6) {
                0 | 1 => self.round_trips(ctx, r, None),
                2..=4 => self.operations(ctx, r, None),
                _ => self.constructors(ctx, r),
            },
        }
    }
}
