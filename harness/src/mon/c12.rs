//! C12 Functor application is the generator-wise substitution it is defined by.

use super::common::*;
use crate::conv::*;
use crate::ctx::*;
use crate::functors::*;
use crate::gen::{self, OhParams, P};
use crate::model::*;
use crate::rng::Rng;
use open_hypergraphs::category::{Arrow, Monoidal, Spider, SymmetricMonoidal};
use open_hypergraphs::lax;
use open_hypergraphs::lax::functor::Functor as LaxFunctor;
use open_hypergraphs::strict::functor::identity::Identity;
use open_hypergraphs::strict::functor::Functor;
use serde_json::json;

pub struct C12;

type S = SOh<u32, u64>;

pub fn small_diagram(r: &mut Rng) -> P {
    let pa = match r.below(4) {
        0 => OhParams::tiny(),
        1 => OhParams { max_nodes: 6, max_edges: 4, max_arity: 3, max_iface: 3, node_labels: 3, edge_labels: 4 },
        2 => OhParams { max_nodes: 4, max_edges: 4, max_arity: 4, max_iface: 3, node_labels: 2, edge_labels: 2 },
        _ => OhParams { max_nodes: 5, max_edges: 3, max_arity: 2, max_iface: 4, node_labels: 3, edge_labels: 3 },
    };
    let mut p = gen::oh(r, &pa);
    if r.chance(1, 2) {
        // unique labels: a mis-routed leg changes the isomorphism class
        gen::uniquify_edge_labels(&mut p);
        if r.chance(1, 2) {
            gen::uniquify_node_labels(&mut p);
        }
    }
    p
}

pub fn classify(ctx: &mut Ctx, spec: &FSpec, p: &P) {
    for o in &p.w {
        match spec.obj(o).len() {
            0 => ctx.class("object_image_length_0"),
            1 => ctx.class("object_image_length_1"),
            _ => ctx.class("object_image_length_many"),
        }
    }
    ctx.class(["op_image_single", "op_image_composite", "op_image_spider_only", "op_image_with_scalar_and_isolated_node", "op_image_on_shared_boundary", "op_image_mixed"][spec.op as usize]);
    if !acyclic(&node_succs(p)) {
        ctx.class("cyclic_diagram");
    }
    if !monogamous(p) {
        ctx.class("non_monogamous_diagram");
    }
    if p.e.iter().any(|e| e.s.is_empty() && e.t.is_empty()) {
        ctx.class("zero_arity_operation");
    }
    let touched: Vec<bool> = (0..p.w.len()).map(|v| p.e.iter().any(|e| e.s.contains(&v) || e.t.contains(&v)) || p.s.contains(&v) || p.t.contains(&v)).collect();
    if touched.iter().any(|t| !t) {
        ctx.class("isolated_node");
    }
}

impl C12 {
    fn substitution(&self, ctx: &mut Ctx, class: &str, spec: &FSpec, p: &P) {
        let input = || json!({"functor": format!("{:?}", spec), "f": show(p)});
        classify(ctx, spec, p);
        if !p.e.is_empty() && p.w.iter().any(|o| spec.obj(o).len() != 1) {
            ctx.nontrivial(&(spec, p));
        }
        let want = match spec.apply(p) {
            Ok(s) => s.result,
            Err(e) => {
                ctx.inconclusive(&format!("model substitution failed: {:?}", e));
                return;
            }
        };
        ctx.max("image_nodes", want.w.len() as u64);
        let lf = to_strict(p);
        // strict trait
        let fun = SpecFunctor(spec.clone());
        if let Some(img) = lib(ctx, "strict::Functor::map_arrow", class, &input, || fun.map_arrow(&lf)) {
            expect_diagram(ctx, "strict::Functor::map_arrow", "generator-wise-substitution", class, &img, &want, &input);
        }
        // lax trait through dyn_functor
        let lfun = LaxSpec(spec.clone());
        let lx = to_lax(&p.to_lax());
        if let Some(img) = lib(ctx, "lax::Functor::map_arrow(dyn)", class, &input, || lfun.map_arrow(&lx)) {
            if let Some(pl) = walk_lax(ctx, "lax::Functor::map_arrow(dyn)", class, &img, &input) {
                match pl.strict() {
                    Ok((got, _)) => {
                        let ty = got.src_type() == want.src_type() && got.tgt_type() == want.tgt_type();
                        if ctx.check(ty, &format!("lax::Functor::map_arrow(dyn)/type/value/{}", class), || json!({"input": input(), "observed": show(&got)})) {
                            expect_iso(ctx, "lax::Functor::map_arrow(dyn)", "generator-wise-substitution", class, &got, &want, &input);
                        }
                    }
                    Err(_) => {
                        ctx.check(false, &format!("lax::Functor::map_arrow(dyn)/quotientable/value/{}", class), || json!({"input": input()}));
                    }
                }
            }
        }
        // the lax trait also accepts an argument that still carries pending unifications: it is the image of
        // the quotiented argument
        {
            // (node numbering shuffled: interface nodes may be numbered after nodes that get merged away)
            let px = { let e = explode(p); let np = Rng(hash_of(&(spec, p))).perm(e.w.len()); renumber_lax(&e, &np) };
            if !px.q.is_empty() {
                ctx.class("lax_argument_with_pending_unifications");
            }
            let lxp = to_lax(&px);
            let inp = || json!({"functor": format!("{:?}", spec), "f": show_lax(&px)});
            // (the deprecated name of the same entry point must treat such an argument the same way)
            let shim = lib(ctx, "lax::functor::define_map_arrow(shim)", "pending_argument", &inp, || crate::compat::lax_functor_shim(&lfun, &lxp)).flatten();
            if let Some(img) = shim {
                match walk_lax(ctx, "lax::functor::define_map_arrow(shim)", "pending_argument", &img, &inp).map(|pl| pl.strict()) {
                    Some(Ok((got, _))) => {
                        if ctx.check(got.src_type() == want.src_type() && got.tgt_type() == want.tgt_type(), "lax::functor::define_map_arrow(shim)/type/value/pending_argument", || json!({"input": inp(), "observed": show(&got)})) {
                            expect_iso(ctx, "lax::functor::define_map_arrow(shim)", "generator-wise-substitution", "pending_argument", &got, &want, &inp);
                        }
                    }
                    Some(Err(_)) => {
                        ctx.check(false, "lax::functor::define_map_arrow(shim)/quotientable/value/pending_argument", || json!({"input": inp()}));
                    }
                    None => {}
                }
            }
            if let Some(img) = lib(ctx, "lax::Functor::map_arrow(dyn)", "pending_argument", &inp, || lfun.map_arrow(&lxp)) {
                if let Some(pl) = walk_lax(ctx, "lax::Functor::map_arrow(dyn)", "pending_argument", &img, &inp) {
                    match pl.strict() {
                        Ok((got, _)) => {
                            let ty = got.src_type() == want.src_type() && got.tgt_type() == want.tgt_type();
                            if ctx.check(ty, "lax::Functor::map_arrow(dyn)/type/value/pending_argument", || json!({"input": inp(), "observed": show(&got)})) {
                                expect_iso(ctx, "lax::Functor::map_arrow(dyn)", "generator-wise-substitution", "pending_argument", &got, &want, &inp);
                            }
                        }
                        Err(_) => {
                            ctx.check(false, "lax::Functor::map_arrow(dyn)/quotientable/value/pending_argument", || json!({"input": inp()}));
                        }
                    }
                }
            }
        }
        // deprecated shim lax::functor::define_map_arrow = dyn_functor::define_map_arrow
        {
            let a = lib(ctx, "lax::functor::define_map_arrow(shim)", class, &input, || crate::compat::lax_functor_shim(&lfun, &lx)).flatten();
            let b = lib(ctx, "lax::Functor::map_arrow(dyn)", class, &input, || lfun.map_arrow(&lx));
            if let (Some(a), Some(b)) = (a, b) {
                let strictify = |x: &LOh<u32, u64>| from_lax(x).ok().and_then(|pl| pl.strict().ok()).map(|x| x.0);
                match (strictify(&a), strictify(&b)) {
                    (Some(pa), Some(pb)) => {
                        if ctx.check(pa.src_type() == pb.src_type() && pa.tgt_type() == pb.tgt_type(), "lax::functor::define_map_arrow(shim)/same-type-as-dyn_functor/value/any", || json!({"input": input()})) {
                            expect_iso(ctx, "lax::functor::define_map_arrow(shim)", "same-as-dyn_functor", "any", &pa, &pb, &input);
                        }
                    }
                    _ => {
                        ctx.check(false, "lax::functor::define_map_arrow(shim)/quotientable/value/any", || json!({"input": input()}));
                    }
                }
            }
        }
        // second order: what the library's lax -> strict conversion returns must be a fit argument for a strict functor
        {
            let lx2 = lx.clone();
            if let Some(img) = lib(ctx, "Identity::map_arrow∘to_strict", class, &input, move || Identity.map_arrow(&lx2.to_strict())) {
                ctx.count("law:identity-functor-after-to_strict");
                expect_diagram(ctx, "Identity::map_arrow∘to_strict", "isomorphic-to-argument", class, &img, p, &input);
            }
        }
        // identity functors
        if let Some(img) = lib(ctx, "Identity::map_arrow", class, &input, || Identity.map_arrow(&lf)) {
            ctx.count("law:identity-functor");
            expect_diagram(ctx, "Identity::map_arrow", "isomorphic-to-argument", class, &img, p, &input);
        }
        if let Some(img) = lib(ctx, "lax::Identity::map_arrow", class, &input, || lax::functor::dyn_functor::Identity.map_arrow(&lx)) {
            if let Some(pl) = walk_lax(ctx, "lax::Identity::map_arrow", class, &img, &input) {
                match pl.strict() {
                    Ok((got, _)) => {
                        if ctx.check(got.src_type() == p.src_type() && got.tgt_type() == p.tgt_type(), &format!("lax::Identity::map_arrow/type/value/{}", class), || json!({"input": input(), "observed": show(&got)})) {
                            expect_iso(ctx, "lax::Identity::map_arrow", "isomorphic-to-argument", class, &got, p, &input);
                        }
                    }
                    Err(_) => {
                        ctx.check(false, &format!("lax::Identity::map_arrow/quotientable/value/{}", class), || json!({"input": input()}));
                    }
                }
            }
        }
        // the native lax path and its witness (owned by C13) are exercised here as well on a quarter of the cases
        if ctx.case % 4 == 0 {
            super::c13::C13.native_only(ctx, class, spec, p);
        }
        ctx.sample(class, || json!({"functor": format!("{:?}", spec), "f": show(p), "image_nodes": want.w.len(), "image_edges": want.e.len()}));
    }

    fn functoriality(&self, ctx: &mut Ctx, r: &mut Rng, spec: &FSpec) {
        let fun = SpecFunctor(spec.clone());
        let pa = OhParams { max_nodes: 5, max_edges: 3, max_arity: 3, max_iface: 3, node_labels: 3, edge_labels: 3 };
        let (f, g) = gen::composable_pair(r, &pa);
        let input = || json!({"functor": format!("{:?}", spec), "f": show(&f), "g": show(&g)});
        let (lf, lg) = (to_strict(&f), to_strict(&g));
        if !f.e.is_empty() || !g.e.is_empty() {
            ctx.nontrivial(&("functoriality", spec, &f, &g));
        }
        // F(f;g) ≅ F(f);F(g)
        let lhs = lib(ctx, "F(f;g)", "laws", &input, || lf.compose(&lg).map(|h| fun.map_arrow(&h))).flatten();
        let rhs = lib(ctx, "F(f);F(g)", "laws", &input, || fun.map_arrow(&lf).compose(&fun.map_arrow(&lg))).flatten();
        law(ctx, "preserves-composition", "laws", lhs, rhs, &input);
        // F(f|g) ≅ F(f)|F(g)
        let lhs = lib(ctx, "F(f|g)", "laws", &input, || fun.map_arrow(&lf.tensor(&lg)));
        let rhs = lib(ctx, "F(f)|F(g)", "laws", &input, || fun.map_arrow(&lf).tensor(&fun.map_arrow(&lg)));
        law(ctx, "preserves-tensor", "laws", lhs, rhs, &input);
        // F(f†) ≅ F(f)†
        let lhs = lib(ctx, "F(f+)", "laws", &input, || fun.map_arrow(&lf.dagger()));
        let rhs = lib(ctx, "F(f)+", "laws", &input, || fun.map_arrow(&lf).dagger());
        law(ctx, "preserves-dagger", "laws", lhs, rhs, &input);
        // identities and symmetries
        let a = gen::type_list(r, 3, 3);
        let b = gen::type_list(r, 3, 3);
        let input2 = || json!({"functor": format!("{:?}", spec), "a": a, "b": b});
        let lhs = lib(ctx, "F(id)", "laws", &input2, || fun.map_arrow(&S::identity(sf(a.clone()))));
        let rhs = lib(ctx, "id(F a)", "laws", &input2, || S::identity(sf(spec.ty(&a))));
        law(ctx, "preserves-identities", "laws", lhs, rhs, &input2);
        let lhs = lib(ctx, "F(twist)", "laws", &input2, || fun.map_arrow(&<S as SymmetricMonoidal>::twist(sf(a.clone()), sf(b.clone()))));
        let rhs = lib(ctx, "twist(F a, F b)", "laws", &input2, || <S as SymmetricMonoidal>::twist(sf(spec.ty(&a)), sf(spec.ty(&b))));
        law(ctx, "preserves-symmetry", "laws", lhs, rhs, &input2);
        ctx.sample("functoriality", || input());
    }
}

fn corpus() -> Vec<(&'static str, FSpec, P)> {
    let e = |l: u64, s: &[usize], t: &[usize]| PEdge { l, s: s.to_vec(), t: t.to_vec() };
    let d: P = POh { w: vec![0, 1, 2, 1], e: vec![e(0, &[0, 1], &[2]), e(1, &[2, 2], &[3, 0]), e(2, &[], &[])], s: vec![0, 1, 1], t: vec![3, 2] };
    let cyc: P = POh { w: vec![0, 1], e: vec![e(0, &[0], &[1]), e(1, &[1], &[0])], s: vec![0], t: vec![0, 1] };
    vec![
        ("all_objects_to_empty", FSpec { lens: [0, 0, 0], distinct_images: true, op: 0 }, d.clone()),
        ("objects_to_pairs_single", FSpec { lens: [2, 2, 2], distinct_images: true, op: 0 }, d.clone()),
        ("mixed_lengths_composite", FSpec { lens: [0, 1, 3], distinct_images: true, op: 1 }, d.clone()),
        ("spider_only_images", FSpec { lens: [2, 1, 2], distinct_images: false, op: 2 }, d.clone()),
        ("scalars_and_isolated", FSpec { lens: [1, 2, 0], distinct_images: true, op: 3 }, d.clone()),
        ("cyclic_argument", FSpec { lens: [2, 3, 1], distinct_images: true, op: 5 }, cyc),
        ("shared_boundary_images", FSpec { lens: [2, 1, 2], distinct_images: false, op: 4 }, d.clone()),
        ("empty_argument", FSpec { lens: [2, 2, 2], distinct_images: true, op: 0 }, P::empty()),
    ]
}

impl Monitor for C12 {
    fn id(&self) -> &'static str {
        "C12"
    }
    fn uses_iso(&self) -> bool {
        true
    }
    fn rule(&self) -> &'static str {
        "cases: hostile corpus (every object to the empty list, objects to pairs, mixed lengths 0/1/3 with composite images, spider-only images with colliding labels, images with scalars and \
         isolated nodes, cyclic argument, empty argument) then seeded functor specs (object image length 0-3 chosen by label, image labels encoding (object, position) or all equal; operation \
         image = single operation / composite of two / spider only / operation + scalar + isolated node / chosen per label) crossed with seeded diagrams of <=6 nodes and <=4 hyperedges \
         (non-monogamous, cyclic, isolated nodes, zero-arity operations; half with unique edge and node labels). Oracle: substitution on the plain model (node blocks, fresh copy of each \
         operation image, legs unioned with the expanded incidence lists, flood-fill quotient), compared by typing and isomorphism with the strict trait's map_arrow and with the lax trait through \
         dyn_functor; Identity functors; F(f;g), F(f|g), F(f+), F(id), F(twist) against the same expressions on the images through the API. non-trivial = >=1 hyperedge and an object whose image \
         has length != 1; distinct = hash of (spec, diagram). Also: operation images on a shared, non-injective boundary (possibly cyclic), the lax trait on arguments that still carry pending unifications, the deprecated shim compared up to isomorphism."
    }
    fn corpus_len(&self) -> u64 {
        corpus().len() as u64
    }
    fn floors(&self) -> Vec<(&'static str, u64)> {
        vec![
            ("class:object_image_length_0", 100),
            ("class:object_image_length_1", 100),
            ("class:object_image_length_many", 100),
            ("class:op_image_single", 20),
            ("class:op_image_composite", 20),
            ("class:op_image_spider_only", 20),
            ("class:op_image_with_scalar_and_isolated_node", 20),
            ("class:op_image_mixed", 20),
            ("class:op_image_on_shared_boundary", 20),
            ("class:lax_argument_with_pending_unifications", 100),
            ("class:cyclic_diagram", 50),
            ("class:non_monogamous_diagram", 100),
            ("class:zero_arity_operation", 20),
            ("class:isolated_node", 50),
            ("law:preserves-composition", 50),
            ("law:preserves-tensor", 50),
            ("law:preserves-dagger", 50),
            ("law:preserves-identities", 50),
            ("law:preserves-symmetry", 50),
            ("law:identity-functor", 100),
            ("law:identity-functor-after-to_strict", 100),
            ("api:lax::Functor::map_arrow(dyn)", 100),
        ]
    }
    fn run_case(&self, idx: u64, r: &mut Rng, ctx: &mut Ctx) {
        let c = corpus();
        if (idx as usize) < c.len() {
            let (class, spec, p) = &c[idx as usize];
            ctx.class(class);
            self.substitution(ctx, class, spec, p);
            return;
        }
        let spec = FSpec::random(r);
        if r.chance(1, 4) {
            self.functoriality(ctx, r, &spec);
        } else {
            let p = small_diagram(r);
            self.substitution(ctx, "random", &spec, &p);
        }
    }
}
