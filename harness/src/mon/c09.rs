//! C09 Quotienting a lax diagram merges exactly the unified nodes, atomically.

use super::common::*;
use crate::conv::*;
use crate::ctx::*;
use crate::gen::{self, OhParams, PL};
use crate::model::*;
use crate::rng::Rng;
use open_hypergraphs::lax;
use serde_json::{json, Value};

pub struct C09;

fn e(l: u64, s: &[usize], t: &[usize]) -> PEdge<u64> {
    PEdge { l, s: s.to_vec(), t: t.to_vec() }
}

/// built once per process
fn corpus() -> &'static Vec<(&'static str, PL)> {
    static C: std::sync::OnceLock<Vec<(&'static str, PL)>> = std::sync::OnceLock::new();
    C.get_or_init(corpus_build)
}

fn corpus_build() -> Vec<(&'static str, PL)> {
    let chain = |n: usize, conflict_at: Option<usize>| -> PL {
        let mut w = vec![0u32; n];
        if let Some(k) = conflict_at {
            w[k] = 1;
        }
        PLax { w, e: vec![e(0, &[0], &[n - 1])], s: vec![0, n / 2], t: vec![n - 1], q: (0..n - 1).map(|i| (i, i + 1)).collect() }
    };
    vec![
        ("no_pairs", PLax { w: vec![0, 1], e: vec![e(0, &[0], &[1])], s: vec![0], t: vec![1], q: vec![] }),
        ("no_nodes", PLax { w: vec![], e: vec![e(0, &[], &[])], s: vec![], t: vec![], q: vec![] }),
        ("self_pair", PLax { w: vec![0, 1], e: vec![], s: vec![0], t: vec![1], q: vec![(0, 0), (1, 1)] }),
        ("repeated_pair", PLax { w: vec![0, 0, 1], e: vec![e(0, &[0, 1], &[2])], s: vec![0, 1], t: vec![2], q: vec![(0, 1), (0, 1), (1, 0)] }),
        ("conflict_minimal", PLax { w: vec![1, 2], e: vec![], s: vec![0], t: vec![1], q: vec![(0, 1)] }),
        ("conflict_with_edges_and_interfaces", PLax { w: vec![0, 0, 1], e: vec![e(3, &[0], &[1]), e(4, &[1, 2], &[0])], s: vec![0, 2], t: vec![1], q: vec![(0, 1), (1, 2)] }),
        ("star", PLax { w: vec![0; 6], e: vec![e(0, &[1, 2], &[3, 4, 5])], s: vec![5], t: vec![1], q: vec![(0, 1), (0, 2), (0, 3), (0, 4), (0, 5)] }),
        ("chain_consistent_1k", chain(1000, None)),
        ("chain_hidden_conflict_1k", chain(1000, Some(617))),
        ("stress_chain_20k", chain(20_000, None)),
    ]
}

/// apply a node map to the model (labels taken from the fibres)
fn apply_q<O: Lbl>(p: &PLax<O, u64>, q: &[usize], k: usize) -> Option<PLax<O, u64>> {
    let mut w: Vec<Option<O>> = vec![None; k];
    for (i, l) in p.w.iter().enumerate() {
        if q[i] >= k {
            return None;
        }
        let clash = match &w[q[i]] {
            None => false,
            Some(m) => m != l,
        };
        if clash {
            return None;
        }
        if w[q[i]].is_none() {
            w[q[i]] = Some(l.clone());
        }
    }
    if w.iter().any(|x| x.is_none()) {
        return None; // not onto
    }
    Some(PLax {
        w: w.into_iter().map(|x| x.unwrap()).collect(),
        e: p.e.iter().map(|e| PEdge { l: e.l, s: e.s.iter().map(|&i| q[i]).collect(), t: e.t.iter().map(|&i| q[i]).collect() }).collect(),
        s: p.s.iter().map(|&i| q[i]).collect(),
        t: p.t.iter().map(|&i| q[i]).collect(),
        q: vec![],
    })
}

fn uniform(p: &PL) -> (Vec<usize>, usize, bool) {
    let (cls, k) = components(p.w.len(), &p.q);
    let mut lab: Vec<Option<u32>> = vec![None; k];
    let mut ok = true;
    for (i, l) in p.w.iter().enumerate() {
        match lab[cls[i]] {
            None => lab[cls[i]] = Some(*l),
            Some(m) => {
                if m != *l {
                    ok = false;
                }
            }
        }
    }
    (cls, k, ok)
}

impl C09 {
    /// judge one quotient() call on an open hypergraph whose state before the call is `before`
    /// returns the model state after the call (for histories)
    fn judge_open(&self, ctx: &mut Ctx, class: &str, before: &PL, f: &mut LOh<u32, u64>, big: bool) -> Option<PL> {
        let input = || if big { json!("stress shape") } else { json!({"diagram": show_lax(before)}) };
        let (cls, k, ok) = uniform(before);
        let ucls = if ok { "label_consistent" } else { "label_conflict" };
        ctx.class(ucls);
        let r = guard(|| f.quotient());
        ctx.api("OpenHypergraph::quotient");
        let r = match r {
            Ok(x) => x,
            Err(p) => {
                ctx.evaluations += 1;
                ctx.outcome("panic");
                ctx.violation(&format!("OpenHypergraph::quotient/returns/{}/{}", p.sig(), ucls), json!({"input": input(), "observed": p.json()}));
                return None;
            }
        };
        // on failure the diagram may legitimately be anything the snapshot was (even ill-formed
        // data is compared field by field); on success the result must be well-formed
        let after = if r.is_ok() {
            match walk_lax(ctx, "OpenHypergraph::quotient", ucls, f, &input) {
                Some(a) => a,
                None => return None,
            }
        } else {
            from_lax_raw(f)
        };
        match (ok, r) {
            (true, Ok(q)) => {
                ctx.outcome("Ok");
                let qt = &q.table.0;
                let part_ok = qt.len() == before.w.len() && q.target == k && same_partition(qt, &cls);
                ctx.check(part_ok, &format!("OpenHypergraph::quotient/fibres-are-components/value/{}", class), || {
                    json!({"input": input(), "observed_q": if big { vec![] } else { qt.clone() }, "observed_target": q.target, "expected_partition": if big { vec![] } else { cls.clone() }, "expected_classes": k})
                });
                if !part_ok {
                    return None;
                }
                let want = apply_q(before, qt, k);
                let ok2 = want.as_ref() == Some(&after);
                ctx.check(ok2, &format!("OpenHypergraph::quotient/rewrites-every-reference/value/{}", class), || {
                    json!({"input": input(), "q": if big { vec![] } else { qt.clone() }, "observed": if big { "".into() } else { show_lax(&after) }, "expected": want.as_ref().map(|w| if big { "".into() } else { show_lax(w) })})
                });
                Some(after)
            }
            (true, Err(_)) => {
                ctx.outcome("Err");
                ctx.check(false, &format!("OpenHypergraph::quotient/succeeds-iff-uniform/value/{}", ucls), || json!({"input": input(), "observed": "Err", "expected": "Ok"}));
                None
            }
            (false, Ok(_)) => {
                ctx.outcome("Ok");
                ctx.check(false, &format!("OpenHypergraph::quotient/succeeds-iff-uniform/value/{}", ucls), || json!({"input": input(), "observed": "Ok", "expected": "Err (a class carries two labels)"}));
                None
            }
            (false, Err(_)) => {
                ctx.outcome("Err");
                ctx.evaluations += 1;
                if ctx.check(after == *before && lax_lens(f) == plax_lens(before), "OpenHypergraph::quotient/failed-leaves-diagram-unchanged/value/label_conflict", || {
                    json!({"input": input(), "observed_after": if big { "".into() } else { show_lax(&after) }, "expected_after": "exactly the diagram before the call"})
                }) {
                    Some(after)
                } else {
                    None
                }
            }
        }
    }

    /// the deprecated alias, same oracle
    fn judge_alias(&self, ctx: &mut Ctx, class: &str, before: &PL, f: &mut LOh<u32, u64>, big: bool) -> Option<PL> {
        let input = || if big { json!("stress shape") } else { json!({"diagram": show_lax(before)}) };
        let (cls, k, ok) = uniform(before);
        let ucls = if ok { "label_consistent" } else { "label_conflict" };
        ctx.class(ucls);
        let r = match guard(|| crate::compat::quotient_witness(f)) {
            Ok(Some(x)) => Ok(x),
            Ok(None) => return None, // the alias no longer exists: nothing to judge
            Err(p) => Err(p),
        };
        ctx.api("OpenHypergraph::quotient_witness");
        let r = match r {
            Ok(x) => x,
            Err(p) => {
                ctx.evaluations += 1;
                ctx.outcome("panic");
                ctx.violation(&format!("OpenHypergraph::quotient_witness/returns/{}/{}", p.sig(), ucls), json!({"input": input(), "observed": p.json()}));
                return None;
            }
        };
        // on failure the diagram may legitimately be anything the snapshot was (even ill-formed
        // data is compared field by field); on success the result must be well-formed
        let after = if r.is_ok() {
            match walk_lax(ctx, "OpenHypergraph::quotient_witness", ucls, f, &input) {
                Some(a) => a,
                None => return None,
            }
        } else {
            from_lax_raw(f)
        };
        match (ok, r) {
            (true, Ok(q)) => {
                
                let qt = &q.table.0;
                let part_ok = qt.len() == before.w.len() && q.target == k && same_partition(qt, &cls);
                ctx.check(part_ok, &format!("OpenHypergraph::quotient_witness/fibres-are-components/value/{}", class), || {
                    json!({"input": input(), "observed_q": if big { vec![] } else { qt.clone() }, "observed_target": q.target, "expected_partition": if big { vec![] } else { cls.clone() }, "expected_classes": k})
                });
                if !part_ok {
                    return None;
                }
                let want = apply_q(before, qt, k);
                let ok2 = want.as_ref() == Some(&after);
                ctx.check(ok2, &format!("OpenHypergraph::quotient_witness/rewrites-every-reference/value/{}", class), || {
                    json!({"input": input(), "q": if big { vec![] } else { qt.clone() }, "observed": if big { "".into() } else { show_lax(&after) }, "expected": want.as_ref().map(|w| if big { "".into() } else { show_lax(w) })})
                });
                Some(after)
            }
            (true, Err(_)) => {
                
                ctx.check(false, &format!("OpenHypergraph::quotient_witness/succeeds-iff-uniform/value/{}", ucls), || json!({"input": input(), "observed": "Err", "expected": "Ok"}));
                None
            }
            (false, Ok(_)) => {
                
                ctx.check(false, &format!("OpenHypergraph::quotient_witness/succeeds-iff-uniform/value/{}", ucls), || json!({"input": input(), "observed": "Ok", "expected": "Err (a class carries two labels)"}));
                None
            }
            (false, Err(_)) => {
                
                ctx.evaluations += 1;
                if ctx.check(after == *before && lax_lens(f) == plax_lens(before), "OpenHypergraph::quotient_witness/failed-leaves-diagram-unchanged/value/label_conflict", || {
                    json!({"input": input(), "observed_after": if big { "".into() } else { show_lax(&after) }, "expected_after": "exactly the diagram before the call"})
                }) {
                    Some(after)
                } else {
                    None
                }
            }
        }
    }

    /// same on a bare lax hypergraph
    fn judge_hyper(&self, ctx: &mut Ctx, class: &str, before: &PL, big: bool) {
        let input = || if big { json!("stress shape") } else { json!({"diagram": show_lax(before)}) };
        let (cls, k, ok) = uniform(before);
        let ucls = if ok { "label_consistent" } else { "label_conflict" };
        let mut h: lax::Hypergraph<u32, u64> = to_lax(before).hypergraph;
        // the read-only form: the coequalizer of the pending pairs (labels play no role), diagram untouched
        {
            let snapshot = h.clone();
            let c = guard(|| h.coequalizer());
            if let Some(q) = must_return(ctx, "Hypergraph::coequalizer", ucls, c, || input()) {
                let ok = q.table.0.len() == before.w.len() && q.target == k && same_partition(&q.table.0, &cls) && q.table.0.iter().all(|&c| c < k);
                ctx.check(ok, &format!("Hypergraph::coequalizer/fibres-are-components/value/{}", class), || json!({"input": input(), "observed_q": if big { vec![] } else { q.table.0.clone() }, "observed_target": q.target, "expected_classes": k}));
                ctx.check(h == snapshot && from_lax_raw(&lax::OpenHypergraph { sources: vec![], targets: vec![], hypergraph: h.clone() }) == { let mut b = before.clone(); b.s = vec![]; b.t = vec![]; b }, &format!("Hypergraph::coequalizer/leaves-diagram-unchanged/value/{}", class), || json!({"input": input()}));
            }
        }
        let r = guard(|| h.quotient());
        ctx.api("Hypergraph::quotient");
        let r = match r {
            Ok(x) => x,
            Err(p) => {
                ctx.evaluations += 1;
                ctx.violation(&format!("Hypergraph::quotient/returns/{}/{}", p.sig(), ucls), json!({"input": input(), "observed": p.json()}));
                return;
            }
        };
        // re-wrap to reuse the lax walker (interfaces play no role here)
        let wrapped = lax::OpenHypergraph { sources: vec![], targets: vec![], hypergraph: h };
        let after = if r.is_ok() {
            match walk_lax(ctx, "Hypergraph::quotient", ucls, &wrapped, &input) {
                Some(a) => a,
                None => return,
            }
        } else {
            from_lax_raw(&wrapped)
        };
        let mut b = before.clone();
        b.s = vec![];
        b.t = vec![];
        match (ok, r) {
            (true, Ok(q)) => {
                let qt = &q.table.0;
                let part_ok = qt.len() == b.w.len() && q.target == k && same_partition(qt, &cls);
                ctx.check(part_ok, &format!("Hypergraph::quotient/fibres-are-components/value/{}", class), || json!({"input": input(), "observed_q": if big { vec![] } else { qt.clone() }}));
                if part_ok {
                    let want = apply_q(&b, qt, k);
                    ctx.check(want.as_ref() == Some(&after), &format!("Hypergraph::quotient/rewrites-every-reference/value/{}", class), || {
                        json!({"input": input(), "observed": if big { "".into() } else { show_lax(&after) }})
                    });
                }
            }
            (false, Err(_)) => {
                ctx.check(after == b && lax_lens(&wrapped) == plax_lens(&b), "Hypergraph::quotient/failed-leaves-diagram-unchanged/value/label_conflict", || {
                    json!({"input": input(), "observed_after": if big { "".into() } else { show_lax(&after) }, "expected_after": "exactly the hypergraph before the call"})
                });
            }
            (want_ok, got) => {
                ctx.check(false, &format!("Hypergraph::quotient/succeeds-iff-uniform/value/{}", ucls), || json!({"input": input(), "expected_ok": want_ok, "observed_ok": got.is_ok()}));
            }
        }
    }

    /// the same oracle over another node-label type (heap-allocated, zero-sized)
    fn judge_other_labels<O: Lbl>(&self, ctx: &mut Ctx, class: &str, before: &PLax<O, u64>) {
        let input = || json!({"diagram": show_lax(before)});
        let (cls, k) = components(before.w.len(), &before.q);
        let ok = { let mut lab: Vec<Option<&O>> = vec![None; k]; let mut ok = true; for (i, l) in before.w.iter().enumerate() { match lab[cls[i]] { None => lab[cls[i]] = Some(l), Some(m) => if m != l { ok = false } } } ok };
        let mut f = to_lax(before);
        let r = guard(|| f.quotient());
        let r = match must_return(ctx, "OpenHypergraph::quotient", class, r, input) {
            Some(r) => r,
            None => return,
        };
        match (ok, r) {
            (true, Ok(q)) => {
                let qt = &q.table.0;
                let part_ok = qt.len() == before.w.len() && q.target == k && same_partition(qt, &cls);
                if ctx.check(part_ok, &format!("OpenHypergraph::quotient/fibres-are-components/value/{}", class), || json!({"input": input(), "observed_q": qt})) {
                    let want = apply_q(before, qt, k);
                    let after = from_lax(&f).ok();
                    ctx.check(want.is_some() && want == after, &format!("OpenHypergraph::quotient/rewrites-every-reference/value/{}", class), || json!({"input": input(), "observed": after.as_ref().map(show_lax)}));
                }
            }
            (false, Err(_)) => {
                ctx.check(from_lax_raw(&f) == *before && lax_lens(&f) == plax_lens(before), &format!("OpenHypergraph::quotient/failed-leaves-diagram-unchanged/value/{}", class), || json!({"input": input()}));
            }
            (want_ok, got) => {
                ctx.check(false, &format!("OpenHypergraph::quotient/succeeds-iff-uniform/value/{}", class), || json!({"input": input(), "expected_ok": want_ok, "observed_ok": got.is_ok()}));
            }
        }
    }

    fn single(&self, ctx: &mut Ctx, class: &str, p: &PL) {
        if !(p.w.len() > 300) {
            match hash_of(p) % 8 {
                0 => {
                    ctx.class("node_labels_on_the_heap");
                    let m = PLax { w: p.w.iter().map(|o| format!("sort-{}", o)).collect::<Vec<String>>(), e: p.e.clone(), s: p.s.clone(), t: p.t.clone(), q: p.q.clone() };
                    self.judge_other_labels(ctx, "heap_labels", &m);
                }
                2 => {
                    // labels whose equality is coarser than identity: every new node must carry the label *of a member of
                    // its fibre*, not merely an equal one
                    ctx.class("node_labels_with_coarse_equality");
                    let m: PLax<Tag, u64> = PLax { w: p.w.iter().enumerate().map(|(i, o)| Tag { sort: *o, id: i as u32 }).collect(), e: p.e.clone(), s: p.s.clone(), t: p.t.clone(), q: p.q.clone() };
                    self.judge_other_labels(ctx, "coarse_equality_labels", &m);
                    let mut f = to_lax(&m);
                    if let Ok(Ok(q)) = guard(|| f.quotient()) {
                        let qt = &q.table.0;
                        let ok = qt.len() == m.w.len() && f.hypergraph.nodes.iter().enumerate().all(|(c, l)| (0..m.w.len()).any(|i| qt[i] == c && m.w[i].id == l.id && m.w[i].sort == l.sort));
                        ctx.check(ok, "OpenHypergraph::quotient/new-node-carries-a-label-of-its-fibre/value/coarse_equality_labels", || {
                            json!({"input": show_lax(&m), "observed_q": qt, "observed_labels": format!("{:?}", f.hypergraph.nodes)})
                        });
                    }
                }
                1 => {
                    ctx.class("node_labels_of_size_zero");
                    let m = PLax { w: vec![(); p.w.len()], e: p.e.clone(), s: p.s.clone(), t: p.t.clone(), q: p.q.clone() };
                    self.judge_other_labels(ctx, "unit_labels", &m);
                }
                _ => {}
            }
        }
        let big = p.w.len() > 300;
        if p.q.iter().any(|&(a, b)| a != b) {
            ctx.nontrivial(p);
        }
        if p.q.iter().any(|&(a, b)| a == b) {
            ctx.class("has_self_pair");
        }
        {
            let mut s = p.q.clone();
            s.sort();
            s.dedup();
            if s.len() < p.q.len() {
                ctx.class("has_repeated_pair");
            }
        }
        let mut f = to_lax(p);
        let after = self.judge_open(ctx, class, p, &mut f, big);
        // idempotence: quotienting again changes nothing
        if let Some(a) = after {
            if a.q.is_empty() {
                let before2 = a.clone();
                let r = guard(|| f.quotient());
                ctx.api("OpenHypergraph::quotient(again)");
                match r {
                    Ok(Ok(_)) => {
                        let now = from_lax(&f).ok();
                        ctx.check(now.as_ref() == Some(&before2), "OpenHypergraph::quotient/idempotent/value/any", || {
                            json!({"input": if big { "stress".into() } else { show_lax(p) }, "after_first": if big { "".into() } else { show_lax(&before2) }, "after_second": now.map(|n| if big { "".into() } else { show_lax(&n) })})
                        });
                    }
                    Ok(Err(_)) => {
                        ctx.check(false, "OpenHypergraph::quotient/idempotent/value/second-call-failed", || json!({"input": if big { "stress".into() } else { show_lax(p) }}));
                    }
                    Err(pn) => {
                        ctx.check(false, &format!("OpenHypergraph::quotient/idempotent/{}/any", pn.sig()), || json!({"observed": pn.json()}));
                    }
                }
            }
        }
        // the deprecated alias is judged by the same oracle as quotient() (not against a second run: the numbering of
        // the merged nodes is not pinned, not even between two calls)
        {
            let mut a = to_lax(p);
            ctx.api("OpenHypergraph::quotient_witness");
            self.judge_alias(ctx, class, p, &mut a, big);
        }
        self.judge_hyper(ctx, class, p, big);
        ctx.sample(class, || json!({"diagram": if big { format!("stress: {} nodes, {} pairs", p.w.len(), p.q.len()) } else { show_lax(p) }}));
    }

    /// history of (new_node | new_edge | unify | quotient)* with the model in lock-step
    fn history(&self, ctx: &mut Ctx, r: &mut Rng) {
        let mut m: PL = if r.chance(1, 2) { PLax::empty() } else { gen::lax(r, &OhParams::tiny(), 2, true) };
        let mut f = to_lax(&m);
        let steps = r.range(5, 40);
        let mut log: Vec<String> = vec![];
        let mut quotients = 0;
        for _ in 0..steps {
            match r.below(10) {
                8 => {
                    // absorb another diagram that carries pending unifications of its own (in place)
                    let consistent = r.chance(5, 6);
                    let g = gen::lax(r, &OhParams::tiny(), 2, consistent);
                    if r.chance(1, 2) {
                        log.push(format!("tensor_assign({})", show_lax(&g)));
                        f.tensor_assign(to_lax(&g));
                        m = m.tensor(&g);
                    } else {
                        log.push(format!("append({})", show_lax(&g)));
                        let _ = f.append(to_lax(&g));
                        let (s, t) = (m.s.clone(), m.t.clone());
                        m = m.tensor(&g);
                        m.s = s;
                        m.t = t;
                    }
                    ctx.count("events:history_absorbs_a_diagram_with_pending_pairs");
                }
                9 => {
                    // delete nodes (possibly endpoints of pending pairs; identifiers may repeat)
                    if m.w.is_empty() {
                        continue;
                    }
                    let k = r.range(1, 2);
                    let mut ids = r.vec_below(k, m.w.len());
                    if r.chance(1, 3) {
                        ids.push(ids[0]);
                    }
                    log.push(format!("delete_nodes({:?})", ids));
                    if ids.iter().any(|i| m.q.iter().any(|&(a, b)| (a == *i) != (b == *i))) {
                        ctx.class("history_deletes_one_endpoint_of_a_pending_pair");
                    }
                    let nids: Vec<lax::NodeId> = ids.iter().map(|&i| lax::NodeId(i)).collect();
                    f.delete_nodes(&nids);
                    super::c11::model_delete_nodes(&mut m, &ids);
                }
                0 | 1 => {
                    let l = r.below(2) as u32;
                    let id = f.new_node(l);
                    log.push(format!("new_node({})", l));
                    m.w.push(l);
                    ctx.check(id.0 == m.w.len() - 1, "history/new_node/fresh-id/any", || json!({"log": log, "observed": id.0}));
                }
                2 => {
                    if m.w.is_empty() {
                        continue;
                    }
                    let (a, b) = (r.small(2), r.small(2));
                    let s = r.vec_below(a, m.w.len());
                    let t = r.vec_below(b, m.w.len());
                    let l = r.below(3) as u64;
                    log.push(format!("new_edge({}, {:?}, {:?})", l, s, t));
                    f.new_edge(l, lax::Hyperedge { sources: s.iter().map(|&i| lax::NodeId(i)).collect(), targets: t.iter().map(|&i| lax::NodeId(i)).collect() });
                    m.e.push(PEdge { l, s, t });
                }
                3..=5 => {
                    if m.w.is_empty() {
                        continue;
                    }
                    let a = r.below(m.w.len());
                    // mostly label-consistent so that successful quotients dominate
                    let b = if r.chance(5, 6) {
                        let c: Vec<usize> = (0..m.w.len()).filter(|&i| m.w[i] == m.w[a]).collect();
                        *r.pick(&c)
                    } else {
                        r.below(m.w.len())
                    };
                    log.push(format!("unify({}, {})", a, b));
                    f.unify(lax::NodeId(a), lax::NodeId(b));
                    m.q.push((a, b));
                }
                6 => {
                    if m.w.is_empty() {
                        continue;
                    }
                    // extend interfaces directly (public fields) so that they are non-trivial
                    let v = r.below(m.w.len());
                    if r.chance(1, 2) {
                        f.sources.push(lax::NodeId(v));
                        m.s.push(v);
                        log.push(format!("sources.push({})", v));
                    } else {
                        f.targets.push(lax::NodeId(v));
                        m.t.push(v);
                        log.push(format!("targets.push({})", v));
                    }
                }
                _ => {
                    log.push("quotient()".into());
                    quotients += 1;
                    ctx.count("events:history_quotients");
                    match self.judge_open(ctx, "history", &m, &mut f, false) {
                        Some(after) => m = after,
                        None => {
                            // a violation was recorded (or the walker failed): stop this history
                            ctx.sample("history_aborted", || json!({"log": log}));
                            return;
                        }
                    }
                }
            }
            // lock-step: all public fields equal the shadow model after every step
            // (pending pairs compared as a multiset of unordered pairs; the model then adopts the library's list)
            let now = from_lax(&f).ok();
            ctx.count("events:history_steps");
            let same = match &now {
                Some(x) => {
                    let norm = |q: &Vec<(usize, usize)>| { let mut v: Vec<(usize, usize)> = q.iter().map(|&(a, b)| (a.min(b), a.max(b))).collect(); v.sort(); v };
                    x.w == m.w && x.e == m.e && x.s == m.s && x.t == m.t && norm(&x.q) == norm(&m.q) && lax_lens(&f) == plax_lens(&m)
                }
                None => false,
            };
            if !ctx.check(same, "history/lock-step/value/any", || json!({"log": log, "observed": now.as_ref().map(show_lax), "expected": show_lax(&m)})) {
                return;
            }
            if let Some(x) = now {
                m.q = x.q;
            }
        }
        if quotients >= 2 {
            ctx.class("history_with_repeated_quotient");
        }
        ctx.nontrivial(&log);
        ctx.sample("history", || json!({"log": log}));
    }
}

impl Monitor for C09 {
    fn id(&self) -> &'static str {
        "C09"
    }
    fn rule(&self) -> &'static str {
        "cases: hostile corpus (no pairs, no nodes, self pairs, repeated pairs, minimal label conflict, conflict with edges and interfaces, star, chains of 10^3 with \
         and without one hidden conflicting label, chain of 2*10^4) then seeded lax diagrams with label-consistent or arbitrary unification lists, and histories of \
         5-40 steps of new_node / new_edge / unify / interface growth / tensor_assign or append of a diagram with pending pairs of its own / delete_nodes (also of one endpoint of a pending pair) / quotient with a shadow model in lock-step. All public fields are snapshotted before and after \
         every quotient() on lax::OpenHypergraph and lax::Hypergraph. Oracle: naive flood-fill components of the pair list; Ok iff every class is label-uniform; on Ok \
         the returned map has exactly those fibres, is onto, and every field equals the old diagram pushed through it with the pending list cleared; a second call \
         changes nothing; on Err every field equals the snapshot. non-trivial = >=1 pair joining two different nodes, or a history; distinct = hash of diagram / step log. Also: the read-only coequalizer() of a bare lax hypergraph (same partition, diagram untouched) and the lengths of all public vectors on the failure path."
    }
    fn corpus_len(&self) -> u64 {
        corpus().len() as u64 + 6
    }
    fn floors(&self) -> Vec<(&'static str, u64)> {
        let mut v = vec![
            ("class:label_consistent", 200),
            ("class:node_labels_on_the_heap", 200),
            ("class:node_labels_of_size_zero", 200),
            ("class:node_labels_with_coarse_equality", 200),
            ("events:history_absorbs_a_diagram_with_pending_pairs", 500),
            ("class:history_deletes_one_endpoint_of_a_pending_pair", 100),
            ("class:long_unification_chain_on_a_thread_stack", 6),
            ("class:label_conflict", 100),
            ("class:has_self_pair", 20),
            ("class:has_repeated_pair", 20),
            ("class:no_pairs", 1),
            ("class:no_nodes", 1),
            ("class:chain_hidden_conflict_1k", 1),
            ("class:stress_chain_20k", 1),
            ("outcome:Ok", 200),
            ("outcome:Err", 100),
            ("events:history_steps", 2000),
            ("events:history_quotients", 100),
            ("class:history_with_repeated_quotient", 20),
            ("api:Hypergraph::quotient", 200),

        ];
        if crate::compat::HAS_QUOTIENT_WITNESS {
            v.push(("api:OpenHypergraph::quotient_witness", 200));
        }
        v
    }
    fn run_case(&self, idx: u64, r: &mut Rng, ctx: &mut Ctx) {
        let c = corpus();
        if (idx as usize) < c.len() {
            let (class, p) = &c[idx as usize];
            ctx.class(class);
            self.single(ctx, class, p);
            return;
        }
        if (idx as usize) < c.len() + 6 {
            // long chains and stars of unifications recorded in every orientation, quotiented on a thread with the
            // default 2 MiB stack
            let n = if cfg!(miri) { 200usize } else { 400_000usize };
            let shape = idx as usize - c.len();
            let pairs: Vec<(usize, usize)> = match shape {
                0 => (0..n - 1).map(|i| (i + 1, i)).collect(),
                1 => (0..n - 1).map(|i| (i, i + 1)).collect(),
                2 => (0..n - 1).rev().map(|i| (i + 1, i)).collect(),
                3 => (0..n - 1).rev().map(|i| (i, i + 1)).collect(),
                4 => (0..n - 1).map(|i| (i, n - 1)).collect(),
                _ => (0..n - 1).map(|i| (n - 1, i)).collect(),
            };
            ctx.class("long_unification_chain_on_a_thread_stack");
            let mut f: LOh<u32, u64> = lax::OpenHypergraph::empty();
            f.hypergraph.nodes = vec![0u32; n];
            f.sources = vec![lax::NodeId(0), lax::NodeId(n / 2)];
            f.targets = vec![lax::NodeId(n - 1)];
            f.hypergraph.quotient = (pairs.iter().map(|p| lax::NodeId(p.0)).collect(), pairs.iter().map(|p| lax::NodeId(p.1)).collect());
            let input = json!({"nodes": n, "shape": shape});
            let res = on_thread_stack(|| f.quotient());
            if let Some(r) = must_return(ctx, "OpenHypergraph::quotient", "long_chain", res, || input.clone()) {
                let ok = matches!(&r, Ok(q) if q.target == 1 && q.table.0.len() == n && q.table.0.iter().all(|&c| c == 0))
                    && f.hypergraph.nodes == vec![0u32]
                    && f.sources == vec![lax::NodeId(0), lax::NodeId(0)]
                    && f.targets == vec![lax::NodeId(0)]
                    && f.hypergraph.quotient.0.is_empty()
                    && f.hypergraph.quotient.1.is_empty();
                ctx.check(ok, "OpenHypergraph::quotient/fibres-are-components/value/long_chain", || json!({"input": input, "observed_ok": r.is_ok(), "observed_nodes": f.hypergraph.nodes.len()}));
            }
            ctx.nontrivial(&("long_chain", shape));
            return;
        }
        if r.chance(1, 5) {
            self.history(ctx, r);
            return;
        }
        if ctx.thorough && r.chance(1, 20_000) {
            let n = 100_000;
            let mut w = vec![0u32; n];
            let conflict = r.chance(1, 2);
            if conflict {
                w[r.below(n)] = 1;
            }
            let mut q: Vec<(usize, usize)> = (0..n - 1).map(|i| (i, i + 1)).collect();
            r.shuffle(&mut q);
            let p = PLax { w, e: vec![e(0, &[0], &[n - 1])], s: vec![0], t: vec![n - 1], q };
            ctx.class("stress_chain_100k");
            self.single(ctx, "stress_chain_100k", &p);
            return;
        }
        let params = match r.below(4) {
            0 => OhParams::tiny(),
            1 | 2 => OhParams::small(),
            _ => OhParams { max_nodes: 12, max_edges: 6, max_arity: 3, max_iface: 4, node_labels: 2, edge_labels: 3 },
        };
        let consistent = r.chance(2, 3);
        let p = gen::lax(r, &params, 8, consistent);
        self.single(ctx, "random", &p);
    }
}
