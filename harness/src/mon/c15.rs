//! C15 Layering respects dependencies, is as shallow as possible, and flags cycles.

use super::common::*;
use crate::conv::*;
use crate::ctx::*;
use crate::gen::{self, OhParams, P};
use crate::model::*;
use crate::oracle::*;
use crate::rng::Rng;
use open_hypergraphs::strict::graph::verif_hooks as hooks;
use open_hypergraphs::strict::layer::{layer, layered_operations};
use serde_json::json;

pub struct C15;

/// classify a dependency multigraph; returns class names
pub fn classify_succ(succ: &[Vec<usize>]) -> Vec<&'static str> {
    let n = succ.len();
    let mut c = vec![];
    if n == 0 {
        c.push("no_operations");
        return c;
    }
    let (left, depth) = strip_depths(succ);
    if left.iter().any(|&b| b) {
        c.push("cyclic");
        let on = on_cycle(succ);
        if (0..n).any(|v| left[v] && !on[v]) {
            c.push("cycle_with_tail");
        }
    } else {
        c.push("acyclic");
    }
    if (0..n).any(|v| succ[v].contains(&v)) {
        c.push("self_dependent");
    }
    let mut indeg = vec![0usize; n];
    let mut maxmult = 0;
    for a in 0..n {
        let mut cnt = vec![0usize; n];
        for &b in &succ[a] {
            cnt[b] += 1;
            indeg[b] += 1;
        }
        maxmult = maxmult.max(cnt.iter().cloned().max().unwrap_or(0));
    }
    if maxmult >= 3 {
        c.push("multiplicity_ge3");
    }
    if indeg.iter().any(|&d| d > n) {
        c.push("indegree_gt_vertex_count");
    }
    if succ.iter().any(|l| !l.is_empty()) {
        c.push("has_dependency");
    }
    let ds: Vec<usize> = depth.iter().flatten().cloned().collect();
    if ds.iter().cloned().max().unwrap_or(0) >= 2 {
        c.push("depth_ge3");
    }
    c
}

fn on_cycle(succ: &[Vec<usize>]) -> Vec<bool> {
    let n = succ.len();
    let mut reach = vec![vec![false; n]; n];
    for a in 0..n {
        for &b in &succ[a] {
            reach[a][b] = true;
        }
    }
    for k in 0..n {
        for a in 0..n {
            if reach[a][k] {
                for b in 0..n {
                    if reach[k][b] {
                        reach[a][b] = true;
                    }
                }
            }
        }
    }
    (0..n).map(|a| reach[a][a]).collect()
}

/// built once per process
fn corpus() -> &'static Vec<(&'static str, P)> {
    static C: std::sync::OnceLock<Vec<(&'static str, P)>> = std::sync::OnceLock::new();
    C.get_or_init(corpus_build)
}

fn corpus_build() -> Vec<(&'static str, P)> {
    let mut v: Vec<(&'static str, P)> = gen::corpus_shapes();
    // chain of 10^4 operations with shuffled edge numbering (closed form: layer = position)
    v.push(("stress_chain_3k", chain(3_000, 7)));
    // one dependency of multiplicity 80: e0 writes node 0 eighty times over, e1 reads it eighty times
    v.push(("multiplicity_80", POh { w: vec![0, 0], e: vec![PEdge { l: 0, s: vec![1], t: vec![0; 80] }, PEdge { l: 1, s: vec![0; 80], t: vec![] }], s: vec![1], t: vec![] }));
    // 80 x 80 parallel dependencies between two operations over 80 distinct nodes, each used once
    v.push(("parallel_dependencies_80", POh { w: vec![0; 80], e: vec![PEdge { l: 0, s: vec![], t: (0..80).collect() }, PEdge { l: 1, s: (0..80).rev().collect(), t: vec![] }], s: vec![], t: vec![] }));
    // ring of 600 operations with a tail of 300 hanging off it and 300 independent ones in a chain
    v.push(("stress_ring_with_tail", ring_with_tail(600, 300, 300, 11)));
    // one layer with 1100 producers feeding 1100 consumers (1100 dependency edges relaxed at once), shuffled
    v.push(("layer_with_more_than_1024_dependencies", {
        let m = 1100;
        let mut e: Vec<PEdge<u64>> = (0..m).map(|k| PEdge { l: 0, s: vec![], t: vec![k] }).collect();
        e.extend((0..m).map(|k| PEdge { l: 1, s: vec![k], t: vec![] }));
        let p = POh { w: vec![0; m], e, s: vec![], t: vec![] };
        let mut r = Rng(17);
        let eo = r.perm(p.e.len());
        let np = r.perm(m);
        p.renumber(&np, &eo)
    }));
    // one node shared by 2000 consumers, then a second layer behind them
    v.push(("fanout_2000", {
        let m = 2000;
        let mut e: Vec<PEdge<u64>> = vec![PEdge { l: 0, s: vec![], t: vec![0] }];
        e.extend((0..m).map(|k| PEdge { l: 1, s: vec![0], t: vec![1 + k] }));
        e.push(PEdge { l: 2, s: (1..=m).step_by(7).collect(), t: vec![] });
        let p = POh { w: vec![0; m + 1], e, s: vec![], t: vec![] };
        let mut r = Rng(19);
        let eo = r.perm(p.e.len());
        let np = r.perm(m + 1);
        p.renumber(&np, &eo)
    }));
    v
}

/// ring of `k` operations, a path of `tail` operations leaving it, and an independent chain of `free`
pub fn ring_with_tail(k: usize, tail: usize, free: usize, seed: u64) -> P {
    let mut r = Rng(seed);
    let mut e: Vec<PEdge<u64>> = vec![];
    // ring nodes 0..k, tail nodes k..k+tail, chain nodes k+tail..k+tail+free+1
    for i in 0..k {
        e.push(PEdge { l: 0, s: vec![i], t: vec![(i + 1) % k] });
    }
    for j in 0..tail {
        let from = if j == 0 { k / 2 } else { k + j - 1 };
        e.push(PEdge { l: 1, s: vec![from], t: vec![k + j] });
    }
    let base = k + tail;
    for j in 0..free {
        e.push(PEdge { l: 2, s: vec![base + j], t: vec![base + j + 1] });
    }
    let n = base + free + 1;
    let p = POh { w: vec![0; n], e, s: vec![base], t: vec![n - 1] };
    let eo = r.perm(p.e.len());
    let np = r.perm(n);
    p.renumber(&np, &eo)
}

pub fn chain(n: usize, seed: u64) -> P {
    let mut r = Rng(seed);
    let perm = r.perm(n);
    // op at position k (edge index perm[k]) reads node k, writes node k+1
    let mut e: Vec<Option<PEdge<u64>>> = vec![None; n];
    for k in 0..n {
        e[perm[k]] = Some(PEdge { l: 0, s: vec![k], t: vec![k + 1] });
    }
    POh { w: vec![0; n + 1], e: e.into_iter().map(|x| x.unwrap()).collect(), s: vec![0], t: vec![n] }
}

/// wide layers: many operations that become ready at the same time (plus a few dependencies)
fn wide(r: &mut Rng) -> P {
    let m = r.range(17, 48);
    // operation k writes node k; a few operations additionally read the outputs of earlier ones
    let mut e: Vec<PEdge<u64>> = (0..m).map(|k| PEdge { l: 0, s: vec![], t: vec![k] }).collect();
    let deps = r.small(m / 2);
    for _ in 0..deps {
        let y = r.range(1, m - 1);
        let x = r.below(y);
        e[y].s.push(x);
    }
    // one collector reading many of them
    if r.chance(1, 2) {
        let k = r.range(17, m);
        e.push(PEdge { l: 1, s: (0..k).collect(), t: vec![] });
    }
    let p = POh { w: vec![0; m], e, s: vec![], t: vec![] };
    let eo = r.perm(p.e.len());
    let np = r.perm(m);
    p.renumber(&np, &eo)
}

fn gen_case(r: &mut Rng, thorough: bool) -> P {
    if r.chance(1, 40) {
        return wide(r);
    }
    match r.below(12) {
        0..=4 => gen::oh(r, &OhParams::dense()),
        5..=6 => gen::oh(r, &OhParams::small()),
        7 => gen::oh(r, &OhParams::tiny()),
        8 => gen::monogamous_acyclic(r, 3, 6, &OhParams::small()),
        9 => {
            // acyclic by construction: edges only go from lower to higher node ids; high arity
            let n = r.range(2, 6);
            let m = r.small(6);
            let mut e = vec![];
            for _ in 0..m {
                let cut = r.range(1, n - 1);
                let (a, b) = (r.small(4), r.small(4));
                e.push(PEdge { l: r.below(2) as u64, s: r.vec_below(a, cut), t: (0..b).map(|_| cut + r.below(n - cut)).collect() });
            }
            POh { w: vec![0; n], e, s: vec![], t: vec![] }
        }
        10 => {
            // cycle with tail: ring of k ops then a path hanging off it, plus an independent op
            let k = r.range(1, 3);
            let tail = r.range(1, 3);
            let n = k + tail + 2;
            let mut e = vec![];
            for i in 0..k {
                e.push(PEdge { l: 0, s: vec![i], t: vec![(i + 1) % k] });
            }
            for j in 0..tail {
                let from = if j == 0 { r.below(k) } else { k + j - 1 };
                e.push(PEdge { l: 1, s: vec![from], t: vec![k + j] });
            }
            e.push(PEdge { l: 2, s: vec![n - 2], t: vec![n - 1] });
            let mut p = POh { w: vec![0; n], e, s: vec![n - 2], t: vec![n - 1] };
            let eo = r.perm(p.e.len());
            let np = r.perm(n);
            p = p.renumber(&np, &eo);
            p
        }
        _ => {
            if thorough {
                gen::oh(r, &OhParams { max_nodes: 12, max_edges: 14, max_arity: 3, max_iface: 2, node_labels: 1, edge_labels: 2 })
            } else {
                gen::oh(r, &OhParams::dense())
            }
        }
    }
}

impl C15 {
    fn judge_diagram(&self, ctx: &mut Ctx, class: &str, p: &P) {
        self.judge_diagram_on(ctx, class, p, to_strict(p))
    }

    /// `lf` is the library value the layering is asked of, `p` what was read back from it (or what it was built from)
    fn judge_diagram_on(&self, ctx: &mut Ctx, class: &str, p: &P, lf: SOh<u32, u64>) {
        let big = p.e.len() > 100;
        let input = || if big { json!("stress shape") } else { json!({"f": show(p)}) };
        let succ = op_succs(p);
        let classes = classify_succ(&succ);
        for c in &classes {
            ctx.class(c);
        }
        if p.e.iter().any(|e| e.s.is_empty() && e.t.is_empty()) {
            ctx.class("zero_arity");
        }
        {
            let (_, depth) = strip_depths(&succ);
            let mut width = std::collections::BTreeMap::new();
            for d in depth.iter().flatten() {
                *width.entry(*d).or_insert(0usize) += 1;
            }
            if width.values().any(|&w| w > 16) {
                ctx.class("layer_wider_than_16");
            }
        }
        if p.e.len() >= 2 && classes.contains(&"has_dependency") {
            ctx.nontrivial(p);
        }
        // two independent computations of the cyclic set must agree (oracle self-check)
        if succ.len() <= 10 {
            let (left, _) = strip_depths(&succ);
            if left != on_or_after_cycle(&succ) {
                ctx.inconclusive("oracle disagreement: strip vs closure");
                return;
            }
        }

        // layer()
        let cls = classes.first().cloned().unwrap_or("none");
        let r = guard(|| layer(&lf));
        let lay = must_return(ctx, "layer", cls, r, input);
        let mut order_ok: Option<(Vec<usize>, Vec<usize>)> = None;
        if let Some((order, unv)) = lay {
            ctx.outcome("layer_returned");
            let o = order.table.0.clone();
            let u = unv.0.clone();
            // the layer function must be a well-formed finite function (its codomain is not prescribed)
            let ok_ff = o.iter().all(|&x| x < order.target);
            ctx.check(ok_ff, &format!("layer/finite-function/value/{}", cls), || {
                json!({"input": input(), "observed": format!("table={:?} target={}", o, order.target)})
            });
            match judge_layering(&succ, &o, &u) {
                Ok(()) => {
                    ctx.evaluations += 1;
                    order_ok = Some((o, u));
                }
                Err((clause, why)) => {
                    ctx.evaluations += 1;
                    ctx.violation(
                        &format!("layer/{}/value/{}", clause, cls),
                        json!({"input": input(), "observed": {"layer": if big { vec![] } else { o.clone() }, "unvisited": if big { vec![] } else { u.clone() }}, "why": why}),
                    );
                }
            }
        }

        // layered_operations()
        let r = guard(|| layered_operations(&lf));
        if let Some((groups, unv)) = must_return(ctx, "layered_operations", cls, r, input) {
            if let Some((o, u)) = &order_ok {
                let mut seen = vec![0usize; p.e.len()];
                let mut wrong_group = None;
                let mut out_of_range = false;
                for (gi, g) in groups.iter().enumerate() {
                    for &y in g.0.iter() {
                        if y >= p.e.len() {
                            out_of_range = true;
                            continue;
                        }
                        seen[y] += 1;
                        if u[y] == 0 && o[y] != gi {
                            wrong_group = Some((y, gi));
                        }
                    }
                }
                let once = (0..p.e.len()).all(|y| u[y] != 0 || seen[y] == 1);
                let same_flags = unv.0.len() == u.len() && unv.0.iter().zip(u.iter()).all(|(a, b)| (*a != 0) == (*b != 0));
                // "in the group of its layer": the group indices must themselves be a valid layering (they need not
                // coincide with the numbers a separate call to layer() returns when an operation has slack)
                let _ = wrong_group;
                let group_layering_ok = {
                    let mut gi_of = vec![0usize; p.e.len()];
                    for (gi, g) in groups.iter().enumerate() {
                        for &y in g.0.iter() {
                            if y < p.e.len() && u[y] == 0 {
                                gi_of[y] = gi;
                            }
                        }
                    }
                    !once || out_of_range || judge_layering(&succ, &gi_of, u).is_ok()
                };
                let wrong_group: Option<(usize, usize)> = if group_layering_ok { None } else { Some((0, 0)) };
                ctx.check(
                    once && wrong_group.is_none() && !out_of_range && same_flags,
                    &format!("layered_operations/exactly-once-in-own-group/value/{}", cls),
                    || {
                        json!({"input": input(), "layer": o, "unvisited": u,
                           "groups": groups.iter().map(|g| g.0.clone()).collect::<Vec<_>>(),
                           "flags_returned": unv.0})
                    },
                );
            }
        }

        if big {
            ctx.sample(class, || json!({"f": "stress chain", "ops": p.e.len()}));
            return;
        }

        // hooks: adjacency builders against reference loops
        let r = guard(|| hooks::operation_adjacency(&lf.h));
        if let Some(adj) = must_return(ctx, "operation_adjacency", cls, r, input) {
            match seg_to_lists(&adj) {
                Ok(l) => {
                    let ok = l.len() == succ.len() && l.iter().zip(succ.iter()).all(|(a, b)| same_set(a, b)) && adj.values.target == succ.len();
                    ctx.check(ok, &format!("operation_adjacency/multiset/value/{}", cls), || {
                        json!({"input": input(), "observed": l, "expected_as_multisets": succ})
                    });
                }
                Err(e) => {
                    ctx.check(false, &format!("operation_adjacency/well-formed/value/{}", cls), || json!({"input": input(), "observed": e}));
                }
            }
        }
        let nsucc = node_succs(p);
        let r = guard(|| hooks::node_adjacency(&lf.h));
        if let Some(adj) = must_return(ctx, "node_adjacency", cls, r, input) {
            match seg_to_lists(&adj) {
                Ok(l) => {
                    let ok = l.len() == nsucc.len() && l.iter().zip(nsucc.iter()).all(|(a, b)| same_set(a, b)) && adj.values.target == nsucc.len();
                    ctx.check(ok, &format!("node_adjacency/multiset/value/{}", cls), || {
                        json!({"input": input(), "observed": l, "expected_as_multisets": nsucc})
                    });
                }
                Err(e) => {
                    ctx.check(false, &format!("node_adjacency/well-formed/value/{}", cls), || json!({"input": input(), "observed": e}));
                }
            }
        }
        let r = guard(|| hooks::node_adjacency_from_incidence(&lf.h.s, &lf.h.t));
        if let Some(adj) = must_return(ctx, "node_adjacency_from_incidence", cls, r, input) {
            match seg_to_lists(&adj) {
                Ok(l) => {
                    let ok = l.len() == nsucc.len() && l.iter().zip(nsucc.iter()).all(|(a, b)| same_set(a, b)) && adj.values.target == nsucc.len();
                    ctx.check(ok, &format!("node_adjacency_from_incidence/multiset/value/{}", cls), || json!({"input": input(), "observed": l, "expected_as_multisets": nsucc}));
                }
                Err(e) => {
                    ctx.check(false, &format!("node_adjacency_from_incidence/well-formed/value/{}", cls), || json!({"input": input(), "observed": e}));
                }
            }
        }
        ctx.sample(class, || json!({"f": show(p), "classes": classes}));
    }

    /// hooks on a raw multigraph adjacency
    fn judge_adjacency(&self, ctx: &mut Ctx, lists: &[Vec<usize>]) {
        let n = lists.len();
        let input = || json!({"adjacency": lists});
        let classes = classify_succ(lists);
        for c in &classes {
            ctx.class(&format!("raw_{}", c));
        }
        let cls = "raw_adjacency";
        let adj = seg_from_lists(lists, n);
        if n >= 2 && classes.contains(&"has_dependency") {
            ctx.nontrivial(&lists.to_vec());
        }

        let r = guard(|| hooks::converse(&adj));
        if let Some(c) = must_return(ctx, "converse", cls, r, input) {
            let mut want: Vec<Vec<usize>> = vec![vec![]; n];
            for (x, l) in lists.iter().enumerate() {
                for &q in l {
                    want[q].push(x);
                }
            }
            match seg_to_lists(&c) {
                Ok(l) => {
                    let ok = l.len() == n && l.iter().zip(want.iter()).all(|(a, b)| same_multiset(a, b)) && c.values.target == n;
                    ctx.check(ok, "converse/multiset/value/raw_adjacency", || json!({"input": input(), "observed": l, "expected_as_multisets": want}));
                }
                Err(e) => {
                    ctx.check(false, "converse/well-formed/value/raw_adjacency", || json!({"input": input(), "observed": e}));
                }
            }
        }

        let r = guard(|| hooks::indegree(&adj));
        if let Some(d) = must_return(ctx, "indegree", cls, r, input) {
            let mut want = vec![0usize; n];
            for l in lists {
                for &q in l {
                    want[q] += 1;
                }
            }
            ctx.check(d.table.0 == want, "indegree/counts/value/raw_adjacency", || {
                json!({"input": input(), "observed": d.table.0, "expected": want})
            });
        }

        // in-degree relative to a set of vertices (chosen from the hash of the adjacency; distinct vertices)
        if n > 0 {
            let h = hash_of(&lists.to_vec());
            let sel: Vec<usize> = (0..n).filter(|&v| (h >> (v % 60)) & 1 == 1).collect();
            let mut want = vec![0usize; n];
            for &k in &sel {
                for &q in &lists[k] {
                    want[q] += 1;
                }
            }
            let inp = || json!({"adjacency": lists, "from": sel});
            let r = guard(|| hooks::dense_relative_indegree(&adj, &ff(sel.clone(), n)));
            if let Some(d) = must_return(ctx, "dense_relative_indegree", cls, r, inp) {
                ctx.check(d.table.0 == want, "dense_relative_indegree/counts/value/raw_adjacency", || json!({"input": inp(), "observed": d.table.0, "expected": want}));
            }
            let r = guard(|| hooks::sparse_relative_indegree(&adj, &ff(sel.clone(), n)));
            if let Some((ix, cnt)) = must_return(ctx, "sparse_relative_indegree", cls, r, inp) {
                let mut got = vec![0usize; n];
                let mut ok = ix.table.0.len() == cnt.table.0.len();
                let mut seen = vec![false; n];
                if ok {
                    for (&v, &c) in ix.table.0.iter().zip(cnt.table.0.iter()) {
                        if v >= n || seen[v] || c == 0 {
                            ok = false;
                            break;
                        }
                        seen[v] = true;
                        got[v] = c;
                    }
                }
                ctx.check(ok && got == want, "sparse_relative_indegree/each-reached-vertex-once-with-count/value/raw_adjacency", || json!({"input": inp(), "observed_vertices": ix.table.0, "observed_counts": cnt.table.0, "expected_dense": want}));
            }
        }

        let r = guard(|| hooks::kahn(&adj));
        if let Some((order, unv)) = must_return(ctx, "kahn", cls, r, input) {
            match judge_layering(lists, &order.0, &unv.0) {
                Ok(()) => ctx.evaluations += 1,
                Err((clause, why)) => {
                    ctx.evaluations += 1;
                    ctx.violation(&format!("kahn/{}/value/raw_adjacency", clause), json!({"input": input(), "order": order.0, "unvisited": unv.0, "why": why}));
                }
            }
        }
        ctx.sample("raw_adjacency", || json!({"adjacency": lists, "classes": classes}));
    }
}

impl Monitor for C15 {
    fn id(&self) -> &'static str {
        "C15"
    }
    fn rule(&self) -> &'static str {
        "cases: hostile corpus (self loop, cycle with tail, multiplicity 3, parallel edges, zero-arity, unbalanced depths, 3000-operation chain), \
         then seeded diagrams biased to <=6 nodes / <=6 operations / arity <=4 (dependencies of multiplicity 3-16 are common), acyclic-by-construction, \
         monogamous, cycle-with-tail families, wide diagrams in which 17-48 operations share a layer, plus raw multigraph adjacencies for the hook-exposed converse/indegree/kahn. Oracle: dependency relation \
         computed by loops; cyclic set by stripping (cross-checked against transitive closure); clauses unvisited-iff-cyclic, layer(y)>layer(x), all layers \
         below the longest chain length; grouped form lists each visited operation once in its own group. non-trivial = >=2 operations (vertices) with >=1 \
         dependency; distinct = hash of the plain diagram / adjacency. Adjacency builders are compared as sets per operation / node; the grouped form's group indices must be a valid layering. Also: hooks dense_relative_indegree / sparse_relative_indegree / node_adjacency_from_incidence, codomains of the adjacency results, a dependency of multiplicity 80, 80 parallel dependencies, a ring of 600 operations with a tail of 300; any non-zero flag reads as unvisited."
    }
    fn corpus_len(&self) -> u64 {
        corpus().len() as u64
    }
    fn floors(&self) -> Vec<(&'static str, u64)> {
        vec![
            ("class:acyclic", 100),
            ("class:cyclic", 100),
            ("class:self_dependent", 20),
            ("class:cycle_with_tail", 20),
            ("class:multiplicity_ge3", 50),
            ("class:indegree_gt_vertex_count", 20),
            ("class:zero_arity", 10),
            ("class:no_operations", 5),
            ("class:depth_ge3", 20),
            ("class:stress_chain_3k", 1),
            ("class:multiplicity_80", 1),
            ("class:parallel_dependencies_80", 1),
            ("class:stress_ring_with_tail", 1),
            ("class:diagram_built_by_library_operations", 300),
            ("class:incidence_assembled_with_coproduct", 200),
            ("class:layer_with_more_than_1024_dependencies", 1),
            ("class:fanout_2000", 1),
            ("api:dense_relative_indegree", 100),
            ("api:sparse_relative_indegree", 100),
            ("api:node_adjacency_from_incidence", 500),
            ("class:layer_wider_than_16", 50),
            ("api:layer", 500),
            ("api:layered_operations", 500),
            ("api:kahn", 100),
            ("api:converse", 100),
            ("api:indegree", 100),
            ("api:operation_adjacency", 500),
            ("api:node_adjacency", 500),
        ]
    }
    fn run_case(&self, idx: u64, r: &mut Rng, ctx: &mut Ctx) {
        let c = corpus();
        if (idx as usize) < c.len() {
            let (class, p) = &c[idx as usize];
            ctx.class(class);
            self.judge_diagram(ctx, class, p);
            return;
        }
        if r.chance(1, 4) {
            let n = r.small(6);
            // short lists, or (one time in ten) lists of up to 40 entries: multiplicities far above the vertex count
            let long = r.chance(1, 10);
            let lists: Vec<Vec<usize>> = (0..n).map(|_| { let k = if long { r.small(40) } else { r.small(5) }; r.vec_below(k, n) }).collect();
            self.judge_adjacency(ctx, &lists);
            return;
        }
        if ctx.thorough && r.chance(1, 50_000) {
            let p = chain(10_000 + r.below(5_000), r.next());
            ctx.class("stress_chain_random");
            self.judge_diagram(ctx, "stress_chain_random", &p);
            return;
        }
        if r.chance(1, 10) {
            // a diagram whose incidence arrays were assembled by appending operations with the library's coproduct of
            // segmented arrays (as a user extending a diagram does), checked constructors on top
            let p = gen_case(r, false);
            if p.e.len() >= 2 {
                let k = r.range(1, p.e.len() - 1);
                let n = p.w.len();
                let part = |es: &[PEdge<u64>], src: bool| seg_from_lists(&es.iter().map(|e| if src { e.s.clone() } else { e.t.clone() }).collect::<Vec<_>>(), n);
                let built = guard(|| {
                    let s = part(&p.e[..k], true).coproduct(&part(&p.e[k..], true))?;
                    let t = part(&p.e[..k], false).coproduct(&part(&p.e[k..], false))?;
                    let h = open_hypergraphs::strict::hypergraph::Hypergraph::new(s, t, sf(p.w.clone()), sf(p.e.iter().map(|e| e.l).collect())).ok()?;
                    open_hypergraphs::strict::open_hypergraph::OpenHypergraph::new(ff(p.s.clone(), n), ff(p.t.clone(), n), h).ok()
                });
                if let Ok(Some(x)) = built {
                    ctx.class("incidence_assembled_with_coproduct");
                    self.judge_diagram_on(ctx, "assembled", &p, x);
                }
            }
            return;
        }
        if r.chance(1, 6) {
            // the same question asked of a diagram that a pipeline of library operations produced
            let pa = OhParams { max_nodes: 5, max_edges: 4, max_arity: 3, max_iface: 3, node_labels: 2, edge_labels: 3 };
            let (f, g) = gen::composable_pair(r, &pa);
            let h = gen::oh(r, &pa);
            if let Some((x, p, how)) = library_built(r, &f, &g, &h) {
                ctx.class("diagram_built_by_library_operations");
                ctx.count(&format!("pipeline:{}", how));
                self.judge_diagram_on(ctx, "library_built", &p, x);
            }
            return;
        }
        let p = gen_case(r, ctx.thorough);
        self.judge_diagram(ctx, "random", &p);
    }
}
