//! C01 Sequential composition is exactly the gluing (pushout) of the two diagrams.

use super::common::*;
use crate::conv::*;
use crate::ctx::*;
use crate::gen::{self, OhParams, P};
use crate::model::*;
use crate::rng::Rng;
use open_hypergraphs::category::Arrow;
use serde_json::json;

pub struct C01;

fn e(l: u64, s: &[usize], t: &[usize]) -> PEdge<u64> {
    PEdge { l, s: s.to_vec(), t: t.to_vec() }
}

/// fixed hostile pairs; each names the class of the property's quantifier it covers
/// built once per process
fn corpus() -> &'static Vec<(&'static str, P, P)> {
    static C: std::sync::OnceLock<Vec<(&'static str, P, P)>> = std::sync::OnceLock::new();
    C.get_or_init(corpus_build)
}

fn corpus_build() -> Vec<(&'static str, P, P)> {
    let empty = P::empty();
    let zigzag = |n: usize| -> (P, P) {
        // f: n nodes, t = [0,1,1,2,2,...,n-1]; g: n-1 nodes, s = [0,0,1,1,...]; all collapse
        let mut ft = vec![0];
        for i in 1..n - 1 {
            ft.push(i);
            ft.push(i);
        }
        ft.push(n - 1);
        let mut gs = vec![];
        for i in 0..n - 1 {
            gs.push(i);
            gs.push(i);
        }
        (
            POh { w: vec![0; n], e: vec![], s: vec![0], t: ft },
            POh { w: vec![0; n - 1], e: vec![], s: gs, t: vec![n - 2] },
        )
    };
    let (zf, zg) = zigzag(6);
    let (zf2, zg2) = zigzag(10_000);
    vec![
        ("both_empty", empty.clone(), empty.clone()),
        (
            "empty_boundary",
            POh { w: vec![0, 1], e: vec![e(0, &[0], &[1])], s: vec![0], t: vec![] },
            POh { w: vec![1], e: vec![e(1, &[], &[0])], s: vec![], t: vec![0] },
        ),
        (
            "boundary_repeated_in_f_t",
            POh { w: vec![0, 1], e: vec![e(0, &[0], &[1])], s: vec![0], t: vec![1, 1, 0] },
            POh { w: vec![1, 1, 0, 2], e: vec![e(1, &[0, 1, 2], &[3])], s: vec![0, 1, 2], t: vec![3] },
        ),
        (
            "boundary_repeated_in_g_s",
            POh { w: vec![1, 1, 0], e: vec![e(0, &[], &[0, 1, 2])], s: vec![], t: vec![0, 1, 2] },
            POh { w: vec![1, 0], e: vec![e(1, &[0, 1], &[])], s: vec![0, 0, 1], t: vec![0] },
        ),
        (
            "node_shared_between_s_and_t",
            POh { w: vec![0], e: vec![e(0, &[0], &[0])], s: vec![0, 0], t: vec![0] },
            POh { w: vec![0, 0], e: vec![e(1, &[0], &[1])], s: vec![0], t: vec![0, 1, 0] },
        ),
        (
            "zero_arity_edge",
            POh { w: vec![0], e: vec![e(0, &[], &[])], s: vec![0], t: vec![0] },
            POh { w: vec![0], e: vec![e(0, &[], &[]), e(1, &[], &[])], s: vec![0], t: vec![] },
        ),
        (
            "node_repeated_in_edge",
            POh { w: vec![0, 0], e: vec![e(0, &[0, 0, 0], &[1, 1])], s: vec![0], t: vec![1] },
            POh { w: vec![0, 1], e: vec![e(1, &[0, 0], &[1, 0])], s: vec![0], t: vec![1] },
        ),
        ("merge_class_ge3", zf, zg),
        (
            "collapse_all_to_one",
            POh { w: vec![0, 0, 0], e: vec![e(0, &[0, 1], &[2])], s: vec![0, 1, 2], t: vec![0, 1, 2] },
            POh { w: vec![0], e: vec![], s: vec![0, 0, 0], t: vec![0] },
        ),
        (
            "g_is_identity",
            POh { w: vec![0, 1], e: vec![e(0, &[0], &[1])], s: vec![0], t: vec![1, 0] },
            POh::identity(vec![1, 0]),
        ),
        (
            "f_is_spider",
            POh::spider(vec![0, 0], vec![1, 0, 1], vec![0, 1]),
            POh { w: vec![1, 0, 1, 2], e: vec![e(3, &[0, 1, 2], &[3])], s: vec![0, 1, 2], t: vec![3] },
        ),
        (
            "mismatch_by_length",
            POh { w: vec![0, 0], e: vec![], s: vec![0], t: vec![0, 1] },
            POh { w: vec![0], e: vec![], s: vec![0], t: vec![0] },
        ),
        (
            "mismatch_by_one_label",
            POh { w: vec![0, 1], e: vec![], s: vec![0], t: vec![0, 1] },
            POh { w: vec![0, 2], e: vec![], s: vec![0, 1], t: vec![0] },
        ),
        (
            "mismatch_empty_vs_nonempty",
            POh { w: vec![0], e: vec![], s: vec![0], t: vec![] },
            POh { w: vec![0], e: vec![], s: vec![0], t: vec![] },
        ),
        (
            "g_looks_like_identity_but_merges",
            POh { w: vec![0, 0, 1], e: vec![e(0, &[0], &[1, 2])], s: vec![0], t: vec![0, 1, 2] },
            POh { w: vec![0, 0, 1], e: vec![], s: vec![0, 0, 2], t: vec![0, 0, 2] },
        ),
        (
            "f_looks_like_identity_but_merges",
            POh { w: vec![0, 0], e: vec![], s: vec![1, 1], t: vec![1, 1] },
            POh { w: vec![0, 0, 1], e: vec![e(0, &[0, 1], &[2])], s: vec![0, 1], t: vec![2] },
        ),
        (
            "mismatch_by_permutation",
            POh { w: vec![0, 1], e: vec![e(0, &[0], &[1])], s: vec![0], t: vec![0, 1] },
            POh { w: vec![1, 0], e: vec![e(1, &[0, 1], &[])], s: vec![0, 1], t: vec![] },
        ),
        // more than a thousand components survive the gluing: identities on 1100 wires, and two rows of 600 unary
        // operations glued pairwise
        ("wide_identities_1100", POh::identity((0..1100).map(|i| i % 3).collect()), POh::identity((0..1100).map(|i| i % 3).collect())),
        ("two_rows_of_600_operations", {
            let n = 600;
            POh { w: vec![0; 2 * n], e: (0..n).map(|k| e(k as u64, &[k], &[n + k])).collect(), s: (0..n).collect(), t: (n..2 * n).collect() }
        }, {
            let n = 600;
            POh { w: vec![0; 2 * n], e: (0..n).map(|k| e(1000 + k as u64, &[k], &[n + k])).collect(), s: (0..n).collect(), t: (n..2 * n).collect() }
        }),
        ("stress_zigzag_10k", zf2, zg2),
    ]
}

impl C01 {
    fn judge<O: Lbl, A: Lbl>(&self, ctx: &mut Ctx, class: &str, f: &POh<O, A>, g: &POh<O, A>) {
        let input = || json!({"f": show(f), "g": show(g)});
        let big = f.w.len() + g.w.len() > 200;
        let lf = to_strict(f);
        let lg = to_strict(g);
        let want = f.compose(g);
        let composable = want.is_some();
        if composable {
            ctx.class("types_match");
            if !f.t.is_empty() || class != "random" {
                ctx.nontrivial(&(f, g));
            }
        } else {
            ctx.class("types_differ");
        }
        for api in ["compose", "shr"] {
            ctx.api(api);
            let r = if api == "compose" {
                guard(|| lf.compose(&lg))
            } else {
                guard(|| &lf >> &lg)
            };
            match (&want, r) {
                (_, Err(p)) => {
                    ctx.evaluations += 1;
                    ctx.outcome("panic");
                    ctx.violation(
                        &format!("{}/returns/{}/{}", api, p.sig(), if composable { "types_match" } else { "types_differ" }),
                        json!({"input": input(), "observed": p.json(),
                               "expected": if composable { "Some(composite)" } else { "None" }}),
                    );
                }
                (None, Ok(None)) => {
                    ctx.evaluations += 1;
                    ctx.outcome("None");
                }
                (None, Ok(Some(h))) => {
                    ctx.evaluations += 1;
                    ctx.outcome("Some");
                    ctx.violation(
                        &format!("{}/reject-mismatch/value/types_differ", api),
                        json!({"input": input(), "observed": from_strict(&h).map(|p| show(&p)).unwrap_or_else(|e| e),
                               "expected": "None (target type of f differs from source type of g)"}),
                    );
                }
                (Some(_), Ok(None)) => {
                    ctx.evaluations += 1;
                    ctx.outcome("None");
                    ctx.violation(
                        &format!("{}/accept-match/value/types_match", api),
                        json!({"input": input(), "observed": "None", "expected": "Some(composite): types agree"}),
                    );
                }
                (Some(m), Ok(Some(h))) => {
                    ctx.outcome("Some");
                    if big {
                        // closed form: compare sizes and interfaces directly (1 class expected)
                        if let Some(got) = walk(ctx, api, class, &h, &input) {
                            // (sizes, types, the partitions of both interfaces jointly, and the multiset of hyperedge labels
                            // with their arities; the full isomorphism search is reserved for the small cases)
                            let joint = |p: &POh<O, A>| -> Vec<usize> { p.s.iter().chain(p.t.iter()).cloned().collect() };
                            let ok = got.w.len() == m.w.len()
                                && got.e.len() == m.e.len()
                                && got.src_type() == m.src_type()
                                && got.tgt_type() == m.tgt_type()
                                && same_partition(&got.s, &m.s)
                                && same_partition(&got.t, &m.t)
                                && same_partition(&joint(&got), &joint(m))
                                && {
                                    let key = |p: &POh<O, A>| { let mut v: Vec<(A, usize, usize)> = p.e.iter().map(|x| (x.l.clone(), x.s.len(), x.t.len())).collect(); v.sort(); v };
                                    key(&got) == key(m)
                                };
                            ctx.check(ok, &format!("{}/pushout/value/{}", api, class), || {
                                json!({"input": "stress shape", "observed_nodes": got.w.len(), "expected_nodes": m.w.len()})
                            });
                        }
                    } else {
                        expect_diagram(ctx, api, "pushout", class, &h, m, &input);
                    }
                }
            }
        }
        ctx.sample(class, || json!({"f": if big { "stress".into() } else { show(f) }, "g": if big { "stress".into() } else { show(g) },
            "composable": composable}));
    }
}

impl C01 {
    /// the same property through the lax representation: operands carry pending (label-consistent)
    /// unifications; the composite, once quotiented, must be the gluing of the quotiented operands
    fn judge_lax(&self, ctx: &mut Ctx, f: &P, g: &P, r: &mut Rng) {
        let add_pairs = |p: &P, r: &mut Rng| -> PLax<u32, u64> {
            let mut l = p.to_lax();
            let n = l.w.len();
            if n > 0 {
                for _ in 0..r.small(3) {
                    let a = r.below(n);
                    let c: Vec<usize> = (0..n).filter(|&i| l.w[i] == l.w[a]).collect();
                    l.q.push((a, *r.pick(&c)));
                }
            }
            l
        };
        let (lf, lg) = (add_pairs(f, r), add_pairs(g, r));
        let input = || json!({"f": show_lax(&lf), "g": show_lax(&lg)});
        if !lg.q.is_empty() && !lf.w.is_empty() {
            ctx.class("lax_right_operand_with_pending_unifications");
        }
        let (fs, gs) = match (lf.strict(), lg.strict()) {
            (Ok(a), Ok(b)) => (a.0, b.0),
            _ => return,
        };
        let want = fs.compose(&gs);
        let (xf, xg) = (to_lax(&lf), to_lax(&lg));
        for api in ["lax::compose", "lax::shr"] {
            ctx.api(api);
            let res = if api == "lax::compose" { guard(|| Arrow::compose(&xf, &xg)) } else { guard(|| &xf >> &xg) };
            let res = match res {
                Ok(x) => x,
                Err(p) => {
                    ctx.evaluations += 1;
                    ctx.violation(&format!("{}/returns/{}/any", api, p.sig()), json!({"input": input(), "observed": p.json()}));
                    continue;
                }
            };
            ctx.evaluations += 1;
            match (&want, res) {
                (None, None) => {}
                (Some(m), Some(h)) => {
                    if let Some(pl) = walk_lax(ctx, api, "lax", &h, &input) {
                        match pl.strict() {
                            Ok((got, _)) => {
                                let ty = got.src_type() == m.src_type() && got.tgt_type() == m.tgt_type();
                                if ctx.check(ty, &format!("{}/type/value/lax", api), || json!({"input": input(), "observed": show(&got)})) {
                                    expect_iso(ctx, api, "pushout", "lax", &got, m, &input);
                                }
                            }
                            Err(_) => {
                                ctx.check(false, &format!("{}/composite-quotientable/value/lax", api), || json!({"input": input(), "observed": show_lax(&pl)}));
                            }
                        }
                    }
                }
                (w, h) => {
                    ctx.violation(&format!("{}/defined-iff-types-match/value/lax", api), json!({"input": input(), "expected_some": w.is_some(), "observed_some": h.is_some()}));
                }
            }
        }
    }
}

impl Monitor for C01 {
    fn id(&self) -> &'static str {
        "C01"
    }
    fn rule(&self) -> &'static str {
        "cases: fixed hostile corpus (one pair per class named in the quantifier) then seeded random pairs (f,g): \
         composable pairs built over f's target type with boundary nodes shared/repeated, and non-composable pairs \
         (length mismatch, single-label mismatch, unrelated). Each pair is composed through Arrow::compose and `>>`; \
         oracle = model pushout + isomorphism search with pinned interfaces. A third of the random pairs is also composed through the lax representation (both operands carrying pending label-consistent unifications; lax compose and >>), the composite quotiented on the model side and compared with the gluing of the quotiented operands. non-trivial = types match and the shared \
         boundary is non-empty, or a hostile-corpus class; distinct = hash of the plain-model pair. Also: the same pairs over String labels (non-Copy) and over unit labels, and a mismatch by a permuted boundary type."
    }
    fn corpus_len(&self) -> u64 {
        corpus().len() as u64 + 4
    }
    fn uses_iso(&self) -> bool {
        true
    }
    fn floors(&self) -> Vec<(&'static str, u64)> {
        vec![
            ("class:both_empty", 1),
            ("class:empty_boundary", 1),
            ("class:boundary_repeated_in_f_t", 1),
            ("class:boundary_repeated_in_g_s", 1),
            ("class:node_shared_between_s_and_t", 1),
            ("class:zero_arity_edge", 1),
            ("class:node_repeated_in_edge", 1),
            ("class:merge_class_ge3", 1),
            ("class:collapse_all_to_one", 1),
            ("class:mismatch_by_length", 1),
            ("class:mismatch_by_one_label", 1),
            ("class:mismatch_by_permutation", 1),
            ("class:wide_identities_1100", 1),
            ("class:two_rows_of_600_operations", 1),
            ("class:long_identification_chain_on_a_thread_stack", 4),
            ("class:labels_are_strings", 100),
            ("class:labels_are_unit", 100),
            ("class:types_match", 100),
            ("class:types_differ", 30),
            ("outcome:Some", 100),
            ("outcome:None", 30),
            ("api:lax::compose", 200),
            ("class:lax_right_operand_with_pending_unifications", 50),
        ]
    }
    fn run_case(&self, idx: u64, r: &mut Rng, ctx: &mut Ctx) {
        let c = corpus();
        if (idx as usize) < c.len() {
            let (class, f, g) = &c[idx as usize];
            ctx.class(class);
            self.judge(ctx, class, f, g);
            return;
        }
        if (idx as usize) < c.len() + 4 {
            // chains of identifications that collapse 4*10^5 nodes into one, composed on a thread with the default
            // 2 MiB stack: f has N distinct output nodes, g takes all of them into one node (and mirrored shapes)
            let n = 400_000usize;
            let shape = idx as usize - c.len();
            let wide: P = POh { w: vec![0; n], e: vec![], s: vec![0], t: (0..n).collect() };
            let wide_rev: P = POh { w: vec![0; n], e: vec![], s: vec![0], t: (0..n).rev().collect() };
            let funnel: P = POh { w: vec![0], e: vec![], s: vec![0; n], t: vec![0] };
            let (f, g): (P, P) = match shape {
                0 => (wide, funnel),
                1 => (wide_rev, funnel),
                2 => (funnel.dagger(), POh { w: vec![0; n], e: vec![], s: (0..n).collect(), t: vec![n - 1] }),
                _ => {
                    // path: f's outputs 0..n glued pairwise through g's inputs [0,0,1,1,2,2,...]
                    let ft: Vec<usize> = (0..n).flat_map(|i| if i == 0 || i == n - 1 { vec![i] } else { vec![i, i] }).collect();
                    let gs: Vec<usize> = (0..n - 1).flat_map(|i| vec![i, i]).collect();
                    (POh { w: vec![0; n], e: vec![], s: vec![0], t: ft }, POh { w: vec![0; n - 1], e: vec![], s: gs, t: vec![n - 2] })
                }
            };
            ctx.class("long_identification_chain_on_a_thread_stack");
            let (lf, lg) = (to_strict(&f), to_strict(&g));
            let input = json!({"shape": shape, "nodes": n});
            let res = on_thread_stack(|| lf.compose(&lg));
            if let Some(h) = must_return(ctx, "compose", "long_chain", res, || input.clone()) {
                let ok = match h.as_ref().and_then(|h| from_strict(h).ok()) {
                    Some(p) => p.w == vec![0u32] && p.e.is_empty() && p.s.iter().all(|&v| v == 0) && p.t.iter().all(|&v| v == 0) && p.s.len() == f.s.len() && p.t.len() == g.t.len(),
                    None => false,
                };
                ctx.check(ok, "compose/pushout/value/long_chain", || json!({"input": input, "observed_some": h.is_some()}));
            }
            ctx.nontrivial(&("long_chain", shape));
            return;
        }
        let params = match r.below(10) {
            0..=4 => OhParams::small(),
            5..=6 => OhParams::tiny(),
            7..=8 => OhParams::dense(),
            _ => {
                if ctx.thorough {
                    OhParams { max_nodes: 14, max_edges: 10, max_arity: 4, max_iface: 6, node_labels: 3, edge_labels: 4 }
                } else {
                    OhParams::small()
                }
            }
        };
        let kind = r.below(10);
        let (f, g) = if kind < 7 {
            gen::composable_pair(r, &params)
        } else if kind == 7 {
            // single label perturbed on g's side
            let (f, mut g) = gen::composable_pair(r, &params);
            if !g.s.is_empty() {
                let k = r.below(g.s.len());
                g.w.push(g.w[g.s[k]] + 1 + r.below(2) as u32);
                g.s[k] = g.w.len() - 1;
            }
            (f, g)
        } else if kind == 8 {
            // arity mismatch by one
            let (mut f, g) = gen::composable_pair(r, &params);
            if !f.t.is_empty() && r.chance(1, 2) {
                f.t.pop();
            } else if !f.w.is_empty() {
                f.t.push(r.below(f.w.len()));
            }
            (f, g)
        } else {
            (gen::oh(r, &params), gen::oh(r, &params))
        };
        let mut f = f;
        let mut g = g;
        let mut force_unique = false;
        if ctx.thorough && r.chance(1, 12) {
            // medium band (<= 40 nodes / 30 hyperedges); unique edge labels keep the search cheap
            let (f2, g2) = gen::composable_pair(r, &OhParams::medium());
            f = f2;
            g = g2;
            force_unique = true;
            ctx.class("medium_band");
        }
        if force_unique || r.chance(1, 3) {
            // unique edge labels: a mis-attached hyperedge changes the isomorphism class
            gen::uniquify_edge_labels(&mut f);
            for (k, e) in g.e.iter_mut().enumerate() {
                e.l = 2000 + k as u64;
            }
        }
        if ctx.thorough && r.chance(1, 20_000) {
            // large zig-zag with closed form
            let n = 100_000;
            let mut ft = vec![0];
            for i in 1..n - 1 {
                ft.push(i);
                ft.push(i);
            }
            ft.push(n - 1);
            let mut gs = vec![];
            for i in 0..n - 1 {
                gs.push(i);
                gs.push(i);
            }
            f = POh { w: vec![0; n], e: vec![], s: vec![0], t: ft };
            g = POh { w: vec![0; n - 1], e: vec![], s: gs, t: vec![n - 2] };
            ctx.class("stress_zigzag_100k");
            self.judge(ctx, "stress_zigzag_100k", &f, &g);
            return;
        }
        self.judge(ctx, "random", &f, &g);
        match r.below(16) {
            0 | 1 => {
                // non-Copy labels: the same pair over String labels
                ctx.class("labels_are_strings");
                let fs = f.map_labels(|o| format!("node-label-{}", o), |a| format!("op-{}", a));
                let gs = g.map_labels(|o| format!("node-label-{}", o), |a| format!("op-{}", a));
                self.judge(ctx, "string_labels", &fs, &gs);
            }
            2 if f.w.len() + g.w.len() <= 16 => {
                // zero-sized labels: types agree iff the boundary lengths agree
                ctx.class("labels_are_unit");
                let fs = f.map_labels(|_| (), |_| ());
                let gs = g.map_labels(|_| (), |_| ());
                self.judge(ctx, "unit_labels", &fs, &gs);
            }
            _ => {}
        }
        if r.chance(1, 3) && (f.w.len() + g.w.len() <= 16 || force_unique) {
            self.judge_lax(ctx, &f, &g, r);
        }
    }
}
