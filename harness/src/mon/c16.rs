//! C16 Evaluation computes the diagram's function and refuses cyclic diagrams.

use super::common::*;
use crate::conv::*;
use crate::ctx::*;
use crate::evalx::*;
use crate::gen::{self, OhParams};
use crate::model::*;
use crate::rng::Rng;
use serde_json::json;

pub struct C16;

pub type PG = POh<u32, Gate>;

fn g(kind: GateKind, id: u32, nout: u8) -> Gate {
    Gate { kind, id, nout }
}

fn ge(kind: GateKind, id: u32, s: &[usize], t: &[usize]) -> PEdge<Gate> {
    PEdge { l: g(kind, id, t.len() as u8), s: s.to_vec(), t: t.to_vec() }
}

fn corpus() -> Vec<(&'static str, PG)> {
    use GateKind::*;
    vec![
        ("empty_diagram", POh { w: vec![], e: vec![], s: vec![], t: vec![] }),
        ("identity_wires", POh { w: vec![0, 0], e: vec![], s: vec![0, 1], t: vec![1, 0, 1] }),
        ("operation_with_no_inputs", POh { w: vec![0], e: vec![ge(Const, 0, &[], &[0])], s: vec![], t: vec![0] }),
        ("square", POh { w: vec![0, 0, 0, 0], e: vec![ge(Copy, 0, &[0], &[1, 2]), ge(Mul, 1, &[1, 2], &[3])], s: vec![0], t: vec![3] }),
        ("multiplicity3_dependency", POh { w: vec![0, 0, 0], e: vec![ge(Neg, 0, &[0], &[1]), ge(Generic, 1, &[1, 1, 1], &[2])], s: vec![0], t: vec![2] }),
        ("node_read_by_three_operations", POh { w: vec![0; 5], e: vec![ge(Neg, 0, &[0], &[1]), ge(Neg, 1, &[0], &[2]), ge(Generic, 2, &[0, 1, 2], &[3, 4])], s: vec![0], t: vec![3, 4, 0] }),
        ("inputs_at_different_depths", POh { w: vec![0; 5], e: vec![ge(Neg, 3, &[0], &[1]), ge(Neg, 2, &[1], &[2]), ge(Neg, 1, &[2], &[3]), ge(Add, 0, &[0, 3], &[4])], s: vec![0], t: vec![4] }),
        ("multi_output_gate", POh { w: vec![0; 4], e: vec![ge(DivMod, 0, &[0, 1], &[2, 3])], s: vec![0, 1], t: vec![3, 2] }),
        ("self_dependent_operation", POh { w: vec![0, 0], e: vec![ge(Generic, 0, &[0, 1], &[1])], s: vec![0], t: vec![1] }),
        ("two_cycle_with_tail", POh { w: vec![0; 4], e: vec![ge(Generic, 0, &[0, 2], &[1]), ge(Generic, 1, &[1], &[2]), ge(Generic, 2, &[2], &[3])], s: vec![0], t: vec![3] }),
        ("cycle_unconnected_to_outputs", POh { w: vec![0; 3], e: vec![ge(Generic, 0, &[1], &[2]), ge(Generic, 1, &[2], &[1])], s: vec![0], t: vec![0] }),
        ("zero_arity_operation", POh { w: vec![0], e: vec![ge(Generic, 0, &[], &[])], s: vec![0], t: vec![0] }),
    ]
}

/// random circuit: acyclic, every node written exactly once (input or one target position)
pub fn circuit(r: &mut Rng, max_inputs: usize, max_ops: usize) -> PG {
    use GateKind::*;
    let mut w: Vec<u32> = vec![];
    let mut s = vec![];
    for _ in 0..r.small(max_inputs) {
        w.push(r.below(2) as u32);
        s.push(w.len() - 1);
    }
    let mut e: Vec<PEdge<Gate>> = vec![];
    for id in 0..r.small(max_ops) {
        let kind = *r.pick(&[Add, Mul, Neg, Copy, Discard, Const, Mux, DivMod, Xor, And, Generic, Generic, Generic]);
        let (mut a, mut b) = match kind {
            Add | Mul | Xor | And => (2, 1),
            Neg => (1, 1),
            Copy => (1, r.range(1, 3)),
            Discard => (1, 0),
            Const => (0, 1),
            Mux => (3, 1),
            DivMod => (2, 2),
            Generic => (r.small(4), r.small(3)),
        };
        let mut kind = kind;
        if w.is_empty() && a > 0 {
            kind = Const;
            a = 0;
            b = 1;
        }
        let mut src = vec![];
        for k in 0..a {
            if k > 0 && r.chance(1, 4) {
                src.push(src[r.below(src.len())]); // repeated node: multiplicity
            } else {
                src.push(r.below(w.len()));
            }
        }
        let mut tgt = vec![];
        for _ in 0..b {
            w.push(r.below(2) as u32);
            tgt.push(w.len() - 1);
        }
        e.push(PEdge { l: g(kind, id as u32, b as u8), s: src, t: tgt });
    }
    let t = if w.is_empty() { vec![] } else { let k = r.small(4); r.vec_below(k, w.len()) };
    if r.chance(1, 6) {
        w.push(0); // a node nobody reads or writes
    }
    let p = POh { w, e, s, t };
    let np = r.perm(p.w.len());
    let eo = r.perm(p.e.len());
    p.renumber(&np, &eo)
}

/// many operations ready at once (17-48 constants), then consumers at a second and third depth
pub fn wide_circuit(r: &mut Rng) -> PG {
    let m = r.range(17, 48);
    wide_circuit_of(r, m)
}

/// the same shape with `m` operations ready at once
pub fn wide_circuit_of(r: &mut Rng, m: usize) -> PG {
    use GateKind::*;
    let mut w: Vec<u32> = vec![0; m];
    let mut e: Vec<PEdge<Gate>> = (0..m).map(|k| PEdge { l: g(Const, k as u32, 1), s: vec![], t: vec![k] }).collect();
    let mut id = m as u32;
    let consumers = r.range(1, 20);
    let mut second: Vec<usize> = vec![];
    for _ in 0..consumers {
        let a = r.range(1, 3);
        let src = r.vec_below(a, m);
        w.push(0);
        e.push(PEdge { l: g(Generic, id, 1), s: src, t: vec![w.len() - 1] });
        second.push(w.len() - 1);
        id += 1;
    }
    // one collector over many second-layer values and a few first-layer ones
    let mut src = second.clone();
    src.extend(r.vec_below(3, m));
    w.push(0);
    e.push(PEdge { l: g(Generic, id, 1), s: src, t: vec![w.len() - 1] });
    let out = w.len() - 1;
    let t = vec![out, r.below(m), out];
    let p = POh { w, e, s: vec![], t };
    let np = r.perm(p.w.len());
    let eo = r.perm(p.e.len());
    p.renumber(&np, &eo)
}

/// a chain of `n` unary gates (every second one a hash gate), optionally closed into a cycle near its end
pub fn deep_circuit(r: &mut Rng, n: usize, closed: bool) -> PG {
    use GateKind::*;
    let mut w: Vec<u32> = vec![0; n + 1];
    let mut e: Vec<PEdge<Gate>> = (0..n).map(|k| PEdge { l: g(if k % 2 == 0 { Neg } else { Generic }, k as u32, 1), s: vec![k], t: vec![k + 1] }).collect();
    if closed {
        // operation n/2 additionally reads the value produced at the end of the chain
        let k = n / 2;
        e[k] = PEdge { l: g(Generic, k as u32, 1), s: vec![k, n], t: vec![k + 1] };
    }
    w.push(0);
    let p = POh { w, e, s: vec![0], t: vec![n, 0] };
    let np = r.perm(p.w.len());
    let eo = r.perm(p.e.len());
    p.renumber(&np, &eo)
}

fn ident(p: &PG) -> impl Fn(&Gate) -> Option<usize> + '_ {
    move |l: &Gate| p.e.iter().position(|e| e.l.id == l.id)
}

impl C16 {
    fn judge(&self, ctx: &mut Ctx, class: &str, p: &PG, r: &mut Rng) {
        self.judge_on(ctx, class, p, to_strict(p), r)
    }

    fn judge_on(&self, ctx: &mut Ctx, class: &str, p: &PG, lf: SOh<u32, Gate>, r: &mut Rng) {
        let inputs: Vec<u64> = (0..p.s.len()).map(|_| if r.chance(1, 3) { r.below(4) as u64 } else { r.next() }).collect();
        let input = || json!({"f": show(p), "inputs": inputs});
        let re = ref_eval(p, &inputs, &|l, x| gate_apply(l, x));
        let run = run_eval(&lf, inputs.clone(), &|l, x| gate_apply(l, x));
        ctx.api("eval");
        ctx.count_n("events:callback_batches", run.batches.len() as u64);
        // shape classes, as observed by the model
        let deps = op_deps(p);
        if deps.iter().any(|d| { let mut c = d.clone(); c.sort(); c.windows(3).any(|w| w[0] == w[2]) }) {
            ctx.class("multiplicity3_between_two_operations");
        }
        let cyclic = re.out.is_none();
        if !cyclic && !re.multi_write {
            let succ = op_succs(p);
            let (_, depth) = strip_depths(&succ);
            if depth.iter().flatten().cloned().max().unwrap_or(0) >= 1 {
                ctx.class("operations_at_different_depths");
                ctx.nontrivial(&(p, &inputs));
            }
        }
        if p.t.iter().any(|v| p.s.contains(v)) {
            ctx.class("output_is_input");
        }
        if let Some(m) = &run.malformed {
            ctx.check(false, "eval/callback-batch-well-formed/value/any", || json!({"input": input(), "observed": m}));
        }
        match &run.result {
            Err(pn) => {
                ctx.outcome("panic");
                if re.multi_write && !cyclic {
                    ctx.count("unjudged:acyclic_multi_write_panic");
                } else {
                    ctx.evaluations += 1;
                    ctx.violation(&format!("eval/returns/{}/{}", pn.sig(), if cyclic { "cyclic" } else { "acyclic_single_writer" }),
                        json!({"input": input(), "observed": pn.json(), "expected": if cyclic { "None".to_string() } else { format!("Some({:?})", re.out) }}));
                }
            }
            Ok(None) => {
                ctx.outcome("None");
                if cyclic {
                    ctx.class("cyclic");
                    ctx.evaluations += 1;
                } else if re.multi_write {
                    ctx.count("unjudged:acyclic_multi_write_None");
                } else {
                    ctx.check(false, "eval/result-iff-acyclic/value/acyclic_single_writer", || json!({"input": input(), "observed": "None", "expected": format!("Some({:?})", re.out)}));
                }
            }
            Ok(Some(v)) => {
                ctx.outcome("Some");
                if cyclic {
                    ctx.class("cyclic");
                    ctx.check(false, "eval/refuses-cyclic/value/cyclic", || json!({"input": input(), "observed": format!("Some({:?})", v), "expected": "None (dependency cycle)"}));
                } else if re.multi_write {
                    ctx.count("unjudged:acyclic_multi_write_Some");
                } else {
                    ctx.class("acyclic_single_writer");
                    let want = re.out.as_ref().unwrap();
                    if re.unwritten_read {
                        ctx.class("reads_unwritten_node_values_unjudged");
                        ctx.check(v.len() == want.len(), "eval/output-arity/value/acyclic_single_writer", || json!({"input": input(), "observed": v}));
                    } else {
                        ctx.check(v == want, "eval/output-values/value/acyclic_single_writer", || json!({"input": input(), "observed": v, "expected": want}));
                    }
                    // event log: exactly once, reference inputs, dependency order
                    let idf = ident(p);
                    let refs = if re.unwritten_read { None } else { Some(re.inputs.as_slice()) };
                    match judge_log(p, &run.batches, &idf, refs) {
                        Ok(n) => {
                            ctx.evaluations += 1;
                            ctx.count_n("events:callback_operations_checked", n);
                        }
                        Err((clause, why)) => {
                            ctx.evaluations += 1;
                            ctx.violation(&format!("eval/log-{}/value/acyclic_single_writer", clause), json!({"input": input(), "why": why,
                                "log": run.batches.iter().map(|b| b.iter().map(|(l, x)| format!("{:?}{:?}", l, x)).collect::<Vec<_>>()).collect::<Vec<_>>()}));
                        }
                    }
                    // the evaluator is generic in the value type: the same circuit over a non-Copy value type
                    if !re.unwritten_read && r.chance(1, 4) {
                        use open_hypergraphs::array::vec::{VecArray, VecKind};
                        ctx.api("eval<String>");
                        let sin: Vec<String> = inputs.iter().map(|x| x.to_string()).collect();
                        let res = guard(|| {
                            open_hypergraphs::strict::eval::eval::<VecKind, u32, Gate, String>(&lf, VecArray(sin), |ops, args| {
                                let labels: &Vec<Gate> = &ops.0 .0;
                                let segs = segs_to_lists(&args).unwrap_or_default();
                                let outs: Vec<Vec<String>> = labels
                                    .iter()
                                    .enumerate()
                                    .map(|(k, l)| {
                                        let x: Vec<u64> = segs.get(k).map(|s| s.iter().map(|v| v.parse().unwrap_or(u64::MAX)).collect()).unwrap_or_default();
                                        gate_apply(l, &x).into_iter().map(|v| v.to_string()).collect()
                                    })
                                    .collect();
                                segs_from_lists(&outs)
                            })
                            .map(|v| v.0)
                        });
                        let wants: Vec<String> = want.iter().map(|x| x.to_string()).collect();
                        ctx.check(matches!(&res, Ok(Some(v)) if *v == wants), "eval<String>/output-values/value/acyclic_single_writer", || json!({"input": input(), "observed": format!("{:?}", res.as_ref().map_err(|e| e.msg.clone())), "expected": wants}));
                    }
                    // renumbering invariance
                    if r.chance(1, 2) && !re.unwritten_read {
                        let np = r.perm(p.w.len());
                        let eo = r.perm(p.e.len());
                        let p2 = p.renumber(&np, &eo);
                        let run2 = run_eval(&to_strict(&p2), inputs.clone(), &|l, x| gate_apply(l, x));
                        ctx.api("eval(renumbered)");
                        let same = matches!(&run2.result, Ok(Some(v2)) if v2 == want);
                        ctx.check(same, "eval/renumbering-invariant/value/acyclic_single_writer", || json!({"input": input(), "renumbered": show(&p2),
                            "observed": format!("{:?}", run2.result.as_ref().map_err(|e| e.msg.clone())), "expected": want}));
                        // the renumbered run obeys the same log oracle (reference inputs permuted along with the edges)
                        let idf2 = ident(&p2);
                        let refs2: Vec<Vec<u64>> = (0..p2.e.len()).map(|k| re.inputs[eo[k]].clone()).collect();
                        if let Err((clause, why)) = judge_log(&p2, &run2.batches, &idf2, Some(refs2.as_slice())) {
                            ctx.evaluations += 1;
                            ctx.violation(&format!("eval/log-{}/value/renumbered", clause), json!({"input": input(), "renumbered": show(&p2), "why": why}));
                        } else {
                            ctx.evaluations += 1;
                        }
                    }
                }
            }
        }
        ctx.sample(class, || json!({"f": show(p), "inputs": inputs, "reference_output": re.out, "multi_write": re.multi_write}));
    }
}

/// arbitrary diagram relabelled with generic gates (may be cyclic / multi-writer)
pub fn arbitrary(r: &mut Rng, params: &OhParams) -> PG {
    let p = gen::oh(r, params);
    let mut id = 0;
    POh {
        w: p.w.clone(),
        e: p.e.iter().map(|e| { id += 1; PEdge { l: g(GateKind::Generic, id, e.t.len() as u8), s: e.s.clone(), t: e.t.clone() } }).collect(),
        s: p.s.clone(),
        t: p.t.clone(),
    }
}

impl Monitor for C16 {
    fn id(&self) -> &'static str {
        "C16"
    }
    fn rule(&self) -> &'static str {
        "cases: hostile corpus (empty diagram, wires only, nullary operation, x^2 with copy, multiplicity-3 dependency, node read by three operations, inputs at different \
         depths, 2->2 gate, self-dependent operation, cycle with tail, cycle unconnected to outputs, zero-arity operation) then seeded single-writer circuits over a test \
         signature (add, mul, neg, copy 1->n, discard, const, 3-ary mux, 2->2 divmod, xor, and, generic m->n hash gates; fan-out by shared nodes, repeated source nodes, \
         shuffled node/edge numbering), the same circuits with a feedback wire added, and arbitrary small diagrams (cyclic, multi-writer). Edge labels carry a unique id; the \
         apply callback logs every batch. Oracle: reference interpreter in topological order on the plain model; log must contain each hyperedge at most once -- and each hyperedge the output interface depends on exactly once -- with the \
         reference input values and after everything it depends on; renumbered copy gives the same output; None iff the dependency relation is cyclic. Acyclic diagrams with \
         a node written twice are counted but not judged; values read from unwritten nodes are not judged. non-trivial = judged circuit with operations at >=2 depths; \
         distinct = hash of (diagram, inputs). Also: circuits with 17-48 operations ready at once, chains of 200-500 operations (a third of them closed into a cycle), the same circuits evaluated over String values, and the event log of the renumbered run."
    }
    fn corpus_len(&self) -> u64 {
        corpus().len() as u64
    }
    fn floors(&self) -> Vec<(&'static str, u64)> {
        vec![
            ("class:acyclic_single_writer", 500),
            ("class:cyclic", 200),
            ("class:operations_at_different_depths", 300),
            ("class:multiplicity3_between_two_operations", 30),
            ("class:empty_diagram", 1),
            ("class:operation_with_no_inputs", 1),
            ("class:node_read_by_three_operations", 1),
            ("class:output_is_input", 50),
            ("events:callback_operations_checked", 2000),
            ("api:eval(renumbered)", 200),
            ("api:eval<String>", 200),
            ("class:more_than_16_operations_ready_at_once", 100),
            ("class:circuit_built_by_library_operations", 300),
            ("class:more_than_512_operations_ready_at_once", 20),
            ("class:chain_of_several_hundred_operations", 20),
            ("class:long_chain_closed_into_a_cycle", 10),
            ("outcome:Some", 500),
            ("outcome:None", 200),
        ]
    }
    fn run_case(&self, idx: u64, r: &mut Rng, ctx: &mut Ctx) {
        let c = corpus();
        if (idx as usize) < c.len() {
            let (class, p) = &c[idx as usize];
            ctx.class(class);
            self.judge(ctx, class, p, r);
            return;
        }
        if r.chance(1, 8) {
            // circuits glued together by the library: f ; g and h side by side (gates renamed apart), assembled by a
            // pipeline of compose / tensor / dagger / lax composition / identity functor; evaluated as it comes out
            let mut f = circuit(r, 3, 4);
            let ty = f.tgt_type();
            let mut g = crate::gen::oh_with_source(r, &OhParams::tiny(), &ty);
            // g: relabel as generic gates, single-writer by construction is not guaranteed -- judged like any diagram
            let mut id = 1000;
            let mut gg: PG = POh { w: g.w.clone(), e: g.e.iter().map(|e| { id += 1; PEdge { l: Gate { kind: GateKind::Generic, id, nout: e.t.len() as u8 }, s: e.s.clone(), t: e.t.clone() } }).collect(), s: g.s.clone(), t: g.t.clone() };
            let mut h = circuit(r, 2, 3);
            for e in h.e.iter_mut() { e.l.id += 2000; }
            let _ = (&mut f, &mut g, &mut gg);
            if let Some((x, p, how)) = library_built(r, &f, &gg, &h) {
                ctx.class("circuit_built_by_library_operations");
                ctx.count(&format!("pipeline:{}", how));
                self.judge_on(ctx, "library_built", &p, x, r);
            }
            return;
        }
        if r.chance(1, 3000) {
            ctx.class("more_than_512_operations_ready_at_once");
            let m = r.range(513, 1100);
            let p = wide_circuit_of(r, m);
            self.judge(ctx, "very_wide", &p, r);
            return;
        }
        if r.chance(1, 60) {
            ctx.class("more_than_16_operations_ready_at_once");
            let p = wide_circuit(r);
            self.judge(ctx, "wide", &p, r);
            return;
        }
        if r.chance(1, 400) {
            let closed = r.chance(1, 3);
            ctx.class(if closed { "long_chain_closed_into_a_cycle" } else { "chain_of_several_hundred_operations" });
            let n = r.range(200, 500);
            let p = deep_circuit(r, n, closed);
            self.judge(ctx, "deep", &p, r);
            return;
        }
        let p = match r.below(10) {
            0..=5 => {
                let big = ctx.thorough && r.chance(1, 5);
                circuit(r, 4, if big { 14 } else { 7 })
            }
            6..=7 => {
                // circuit with one extra wire fed back (cyclic when it closes a path)
                let mut p = circuit(r, 3, 6);
                if !p.e.is_empty() {
                    let y = r.below(p.e.len());
                    let z = r.below(p.e.len());
                    if !p.e[z].t.is_empty() {
                        let v = *r.pick(&p.e[z].t);
                        p.e[y].s.push(v);
                    }
                }
                p
            }
            8 => arbitrary(r, &OhParams::dense()),
            _ => arbitrary(r, &OhParams::small()),
        };
        self.judge(ctx, "random", &p, r);
    }
}
