//! C05 Every operation returns a well-formed, correctly typed diagram; checked constructors
//! accept exactly the documented data.

use super::common::*;
use crate::conv::*;
use crate::ctx::*;
use crate::functors::*;
use crate::gen::{self, OhParams, P};
use crate::model::*;
use crate::optics::*;
use crate::rng::Rng;
use open_hypergraphs::array::vec::{VecArray, VecKind};
use open_hypergraphs::category::{Arrow, Monoidal, Spider, SymmetricMonoidal};
use open_hypergraphs::finite_function::FiniteFunction;
use open_hypergraphs::indexed_coproduct::IndexedCoproduct;
use open_hypergraphs::lax;
use open_hypergraphs::lax::functor::Functor as LaxFunctor;
use open_hypergraphs::lax::optic::Optic as LaxOpticTrait;
use open_hypergraphs::operations::Operations;
use open_hypergraphs::strict::functor::identity::Identity;
use open_hypergraphs::strict::functor::Functor;
use open_hypergraphs::strict::hypergraph::Hypergraph;
use open_hypergraphs::strict::open_hypergraph::OpenHypergraph;
use serde_json::{json, Value};

pub struct C05;

type S = SOh<u32, u64>;
type L = LOh<u32, u64>;

const DELTA: [isize; 5] = [0, 0, 0, 1, -1];

fn bump(x: usize, d: isize) -> usize {
    (x as isize + d).max(0) as usize
}

/// a strict result must be well-formed and have the promised type
fn typed(ctx: &mut Ctx, kind: &str, f: &S, src: &[u32], tgt: &[u32], input: &dyn Fn() -> Value) {
    ctx.count(&format!("op:{}", kind));
    if let Some(p) = walk(ctx, kind, "any", f, input) {
        if !p.e.is_empty() {
            ctx.nontrivial(&(kind, &p));
        }
        ctx.check(p.src_type() == src && p.tgt_type() == tgt, &format!("{}/promised-type/value/any", kind), || {
            json!({"input": input(), "observed": format!("{:?} -> {:?}", p.src_type(), p.tgt_type()), "expected": format!("{:?} -> {:?}", src, tgt)})
        });
        // the library's own accessors agree with the raw data
        let r = guard(|| (f.source().0 .0.clone(), f.target().0 .0.clone()));
        if let Some((s, t)) = must_return(ctx, "source/target", "any", r, || input()) {
            ctx.check(s == src && t == tgt, &format!("{}/source()-target()-agree/value/any", kind), || json!({"input": input(), "observed": format!("{:?} -> {:?}", s, t)}));
        }
    }
}

fn typed_lax<A: Lbl>(ctx: &mut Ctx, kind: &str, f: &LOh<u32, A>, src: &[u32], tgt: &[u32], input: &dyn Fn() -> Value) {
    ctx.count(&format!("op:{}", kind));
    if let Some(p) = walk_lax(ctx, kind, "any", f, input) {
        if !p.e.is_empty() {
            ctx.nontrivial(&(kind, &p));
        }
        let po = p.forget_q();
        ctx.check(po.src_type() == src && po.tgt_type() == tgt, &format!("{}/promised-type/value/any", kind), || {
            json!({"input": input(), "observed": format!("{:?} -> {:?}", po.src_type(), po.tgt_type()), "expected": format!("{:?} -> {:?}", src, tgt)})
        });
    }
}

/// a partial operation called on well-typed arguments must be defined
fn libd<T>(ctx: &mut Ctx, kind: &str, input: &dyn Fn() -> Value, f: impl FnOnce() -> Option<T>) -> Option<T> {
    match lib(ctx, kind, "any", input, f) {
        Some(Some(x)) => Some(x),
        Some(None) => {
            ctx.check(false, &format!("{}/defined-on-well-typed-arguments/value/any", kind), || json!({"input": input(), "observed": "None"}));
            None
        }
        None => None,
    }
}

fn cat(a: &[u32], b: &[u32]) -> Vec<u32> {
    a.iter().chain(b.iter()).cloned().collect()
}

impl C05 {
    fn operations(&self, ctx: &mut Ctx, r: &mut Rng) {
        let pa = if r.chance(1, 3) { OhParams::tiny() } else { OhParams { max_nodes: 5, max_edges: 4, max_arity: 3, max_iface: 3, node_labels: 3, edge_labels: 3 } };
        let (f, g) = gen::composable_pair(r, &pa);
        let h = gen::oh(r, &pa);
        let (a, b) = (gen::type_list(r, 3, 3), gen::type_list(r, 3, 3));
        let input = || json!({"f": show(&f), "g": show(&g), "h": show(&h), "a": a, "b": b});
        let (lf, lg, lh) = (to_strict(&f), to_strict(&g), to_strict(&h));
        let (fs, ft, gt, hs, ht) = (f.src_type(), f.tgt_type(), g.tgt_type(), h.src_type(), h.tgt_type());
        let kind = r.below(40);
        match kind {
            0 => { if let Some(x) = lib(ctx, "identity", "any", &input, || S::identity(sf(a.clone()))) { typed(ctx, "identity", &x, &a, &a, &input); } }
            1 => { if let Some(x) = lib(ctx, "twist", "any", &input, || <S as SymmetricMonoidal>::twist(sf(a.clone()), sf(b.clone()))) { typed(ctx, "twist", &x, &cat(&a, &b), &cat(&b, &a), &input); } }
            2 => { if let Some(x) = lib(ctx, "singleton", "any", &input, || S::singleton(7, sf(a.clone()), sf(b.clone()))) { typed(ctx, "singleton", &x, &a, &b, &input); } }
            3 => {
                // batch of operations
                let n = r.small(3);
                let st: Vec<Vec<u32>> = (0..n).map(|_| gen::type_list(r, 2, 3)).collect();
                let tt: Vec<Vec<u32>> = (0..n).map(|_| gen::type_list(r, 2, 3)).collect();
                let labels: Vec<u64> = (0..n as u64).collect();
                let ops = guard(|| Operations::<VecKind, u32, u64>::new(sf(labels.clone()), segs_from_lists(&st), segs_from_lists(&tt)));
                if let Some(Some(ops)) = must_return(ctx, "Operations::new", "any", ops, || input()) {
                    if let Some(x) = lib(ctx, "tensor_operations", "any", &input, || S::tensor_operations(ops)) {
                        let ws: Vec<u32> = st.iter().flatten().cloned().collect();
                        let wt: Vec<u32> = tt.iter().flatten().cloned().collect();
                        typed(ctx, "tensor_operations", &x, &ws, &wt, &input);
                    }
                }
            }
            4 => { if let Some(x) = lib(ctx, "tensor", "any", &input, || lf.tensor(&lh)) { typed(ctx, "tensor", &x, &cat(&fs, &hs), &cat(&ft, &ht), &input); } }
            5 => { if let Some(x) = lib(ctx, "bitor", "any", &input, || &lf | &lh) { typed(ctx, "bitor", &x, &cat(&fs, &hs), &cat(&ft, &ht), &input); } }
            6 => { if let Some(x) = lib(ctx, "dagger", "any", &input, || lf.dagger()) { typed(ctx, "dagger", &x, &ft, &fs, &input); } }
            7 => {
                if let Some(x) = libd(ctx, "compose", &input, || lf.compose(&lg)) { typed(ctx, "compose", &x, &fs, &gt, &input); }
                // an arbitrary second operand (usually of another type, often of the same arity): whatever
                // compose hands back is a diagram "returned by a categorical operation given well-formed
                // arguments" -- it must be well-formed with source from the left and target from the right
                if let Some(Some(x)) = lib(ctx, "compose", "arbitrary_pair", &input, || lf.compose(&lh)) {
                    ctx.count(if ft == hs { "class:compose_arbitrary_pair_matching" } else { "class:compose_arbitrary_pair_mismatching_returned" });
                    typed(ctx, "compose", &x, &fs, &ht, &input);
                }
                // same arity, different labels at one position
                if !ft.is_empty() {
                    let mut k = g.clone();
                    let pos = r.below(ft.len());
                    let node = k.s[pos];
                    k.w[node] = k.w[node].wrapping_add(1 + r.below(3) as u32);
                    if k.src_type() != ft {
                        let lk = to_strict(&k);
                        ctx.count("class:compose_relabelled_boundary");
                        if let Some(Some(x)) = lib(ctx, "compose", "relabelled_boundary", &input, || lf.compose(&lk)) {
                            typed(ctx, "compose", &x, &fs, &k.tgt_type(), &input);
                        }
                    }
                }
            }
            8 => { if let Some(x) = libd(ctx, "shr", &input, || &lf >> &lg) { typed(ctx, "shr", &x, &fs, &gt, &input); } }
            9 | 10 => {
                let n = a.len();
                let (ks, kt) = (r.small(3), r.small(3));
                let (s, t) = if n == 0 { (vec![], vec![]) } else { (r.vec_below(ks, n), r.vec_below(kt, n)) };
                let ws: Vec<u32> = s.iter().map(|&i| a[i]).collect();
                let wt: Vec<u32> = t.iter().map(|&i| a[i]).collect();
                if kind == 9 {
                    if let Some(x) = libd(ctx, "spider", &input, || S::spider(ff(s.clone(), n), ff(t.clone(), n), sf(a.clone()))) { typed(ctx, "spider", &x, &ws, &wt, &input); }
                } else if let Some(x) = libd(ctx, "half_spider", &input, || <S as Spider<_>>::half_spider(ff(s.clone(), n), sf(a.clone()))) {
                    typed(ctx, "half_spider", &x, &ws, &a, &input);
                }
            }
            11 => {
                let spec = FSpec::random(r);
                let fun = SpecFunctor(spec.clone());
                if let Some(x) = lib(ctx, "functor_map_arrow", "any", &input, || fun.map_arrow(&lf)) { typed(ctx, "functor_map_arrow", &x, &spec.ty(&fs), &spec.ty(&ft), &input); }
            }
            12 => { if let Some(x) = lib(ctx, "identity_functor", "any", &input, || Identity.map_arrow(&lf)) { typed(ctx, "identity_functor", &x, &fs, &ft, &input); } }
            13 | 14 => {
                let spec = OSpec::random_structural(r);
                let optic = strict_optic(&spec);
                if let Some(x) = lib(ctx, "optic_map_arrow", "any", &input, || optic.map_arrow(&lf)) {
                    if kind == 13 {
                        typed(ctx, "optic_map_arrow", &x, &spec.interleaved(&fs), &spec.interleaved(&ft), &input);
                    } else if let Some(y) = lib(ctx, "optic_adapt", "any", &input, || optic.adapt(&x, &sf(fs.clone()), &sf(ft.clone()))) {
                        typed(ctx, "optic_adapt", &y, &cat(&spec.fty(&fs), &spec.rty(&ft)), &cat(&spec.fty(&ft), &spec.rty(&fs)), &input);
                    }
                }
            }
            15 => {
                let lx = to_lax(&f.to_lax());
                if let Some(x) = lib(ctx, "to_strict", "any", &input, || lx.to_strict()) { typed(ctx, "to_strict", &x, &fs, &ft, &input); }
            }
            16 => { if let Some(x) = lib(ctx, "from_strict", "any", &input, || L::from_strict(lf)) { typed_lax(ctx, "from_strict", &x, &fs, &ft, &input); } }
            17 => { if let Some(x) = lib(ctx, "lax::identity", "any", &input, || L::identity(a.clone())) { typed_lax(ctx, "lax::identity", &x, &a, &a, &input); } }
            18 => { if let Some(x) = lib(ctx, "lax::twist", "any", &input, || <L as SymmetricMonoidal>::twist(a.clone(), b.clone())) { typed_lax(ctx, "lax::twist", &x, &cat(&a, &b), &cat(&b, &a), &input); } }
            19 => { if let Some(x) = lib(ctx, "lax::singleton", "any", &input, || L::singleton(3, a.clone(), b.clone())) { typed_lax(ctx, "lax::singleton", &x, &a, &b, &input); } }
            20..=27 => {
                let pf = gen::lax(r, &pa, 2, true);
                let pg = gen::oh_with_source(r, &pa, &pf.forget_q().tgt_type()).to_lax();
                let (xf, xg) = (to_lax(&pf), to_lax(&pg));
                let (fs, ft, gs, gt) = (pf.forget_q().src_type(), pf.forget_q().tgt_type(), pg.forget_q().src_type(), pg.forget_q().tgt_type());
                let input = || json!({"f": show_lax(&pf), "g": show_lax(&pg)});
                match kind {
                    20 => { if let Some(x) = lib(ctx, "lax::tensor", "any", &input, || xf.tensor(&xg)) { typed_lax(ctx, "lax::tensor", &x, &cat(&fs, &gs), &cat(&ft, &gt), &input); } }
                    21 => { if let Some(x) = libd(ctx, "lax::compose", &input, || Arrow::compose(&xf, &xg)) { typed_lax(ctx, "lax::compose", &x, &fs, &gt, &input); } }
                    22 => { if let Some(x) = libd(ctx, "lax_compose", &input, || xf.lax_compose(&xg)) { typed_lax(ctx, "lax_compose", &x, &fs, &gt, &input); } }
                    23 => { if let Some(x) = lib(ctx, "lax::dagger", "any", &input, || Spider::dagger(&xf)) { typed_lax(ctx, "lax::dagger", &x, &ft, &fs, &input); } }
                    24 => {
                        let mut x = xf.clone();
                        let y = xg.clone();
                        if lib(ctx, "tensor_assign", "any", &input, || x.tensor_assign(y)).is_some() { typed_lax(ctx, "tensor_assign", &x, &cat(&fs, &gs), &cat(&ft, &gt), &input); }
                    }
                    25 => {
                        let mut x = xf.clone();
                        if let Some(Ok(_)) = lib(ctx, "quotient", "any", &input, || x.quotient()) { typed_lax(ctx, "quotient", &x, &fs, &ft, &input); }
                    }
                    26 => {
                        let fun = LaxSpec(FSpec::random(r));
                        let strictish = to_lax(&pf.strict().unwrap().0.to_lax());
                        if let Some(x) = lib(ctx, "lax_functor_map_arrow", "any", &input, || fun.map_arrow(&strictish)) { typed_lax(ctx, "lax_functor_map_arrow", &x, &fun.0.ty(&fs), &fun.0.ty(&ft), &input); }
                    }
                    _ => {
                        let spec = OSpec::random_structural(r);
                        let lo = LaxOptic(spec.clone());
                        if let Some(x) = lib(ctx, "lax_optic_map_adapted", "any", &input, || lo.map_adapted(xf.clone())) {
                            typed_lax(ctx, "lax_optic_map_adapted", &x, &cat(&spec.fty(&fs), &spec.rty(&ft)), &cat(&spec.fty(&ft), &spec.rty(&fs)), &input);
                        }
                    }
                }
            }
            28 => {
                let n = a.len();
                let (ks, kt) = (r.small(3), r.small(3));
                let (s, t) = if n == 0 { (vec![], vec![]) } else { (r.vec_below(ks, n), r.vec_below(kt, n)) };
                let ws: Vec<u32> = s.iter().map(|&i| a[i]).collect();
                let wt: Vec<u32> = t.iter().map(|&i| a[i]).collect();
                if let Some(x) = libd(ctx, "lax::spider", &input, || L::spider(ff(s.clone(), n), ff(t.clone(), n), a.clone())) { typed_lax(ctx, "lax::spider", &x, &ws, &wt, &input); }
            }
            29 => {
                // hypergraph-level constructors: empty, discrete, coproduct, coequalize_vertices
                let r1 = lib(ctx, "Hypergraph::empty/discrete/coproduct", "any", &input, || {
                    let e = Hypergraph::<VecKind, u32, u64>::empty();
                    let d = Hypergraph::<VecKind, u32, u64>::discrete(sf(a.clone()));
                    let c = lf.h.coproduct(&d).coproduct(&e);
                    (d.is_discrete(), OpenHypergraph { s: ff(vec![], f.w.len() + a.len()), t: ff(vec![], f.w.len() + a.len()), h: c })
                });
                if let Some((disc, o)) = r1 {
                    ctx.check(disc, "Hypergraph::discrete/is_discrete/value/any", || json!({"input": input()}));
                    typed(ctx, "Hypergraph::coproduct", &o, &[], &[], &input);
                }
            }
            30 => {
                // coequalize_vertices along a label-respecting surjection
                let (cls, k) = {
                    let n = f.w.len();
                    let pairs: Vec<(usize, usize)> = if n == 0 { vec![] } else { (0..r.small(3)).map(|_| { let x = r.below(n); let c: Vec<usize> = (0..n).filter(|&i| f.w[i] == f.w[x]).collect(); (x, *r.pick(&c)) }).collect() };
                    components(n, &pairs)
                };
                if let Some(hq) = libd(ctx, "coequalize_vertices", &input, || lf.h.coequalize_vertices(&ff(cls.clone(), k))) {
                    let o = OpenHypergraph { s: ff(vec![], k), t: ff(vec![], k), h: hq };
                    typed(ctx, "coequalize_vertices", &o, &[], &[], &input);
                }
            }
            31 => {
                // validate() on outputs of composition (never done by the suite)
                if let Some(x) = libd(ctx, "compose", &input, || lf.compose(&lg)) {
                    let y = x.clone();
                    if let Some(v) = lib(ctx, "validate", "any", &input, || y.validate().is_ok()) {
                        ctx.count("op:validate_on_result");
                        ctx.check(v, "validate/accepts-composite/value/any", || json!({"input": input()}));
                    }
                    typed(ctx, "compose", &x, &fs, &gt, &input);
                }
            }
            34 | 35 => {
                // the forgetful functors of the var interface, on arbitrary lax terms with var-labelled hyperedges
                use open_hypergraphs::lax::var::forget::{forget, forget_monogamous};
                let t = super::c19::C19.arbitrary_term(r);
                if let Ok((st, _)) = t.strict() {
                    let term = to_lax(&t);
                    let input = || json!({"term": show_lax(&t)});
                    let res = if kind == 34 { lib(ctx, "forget", "any", &input, || forget(&term)) } else { lib(ctx, "forget_monogamous", "any", &input, || forget_monogamous(&term)) };
                    if let Some(x) = res {
                        typed_lax(ctx, if kind == 34 { "forget" } else { "forget_monogamous" }, &x, &st.src_type(), &st.tgt_type(), &input);
                    }
                }
            }
            39 => {
                // zero-sized labels: wire-free diagrams (identity on the unit object, scalars) and compositions whose
                // arities do or do not match -- every call returns, results are well-formed and typed
                type U = SOh<(), ()>;
                let unit = |p: &P| -> POh<(), ()> { p.map_labels(|_| (), |_| ()) };
                let (uf, ug) = (unit(&f), unit(&h));
                let (xf, xg) = (to_strict(&uf), to_strict(&ug));
                let inp = || json!({"f": show(&uf), "g": show(&ug)});
                let walk_u = |ctx: &mut Ctx, api: &str, x: &U, ns: usize, nt: usize| {
                    ctx.count("op:unit_labels");
                    if let Some(p) = walk(ctx, api, "unit_labels", x, &inp) {
                        ctx.check(p.s.len() == ns && p.t.len() == nt, &format!("{}/promised-type/value/unit_labels", api), || json!({"input": inp(), "observed": show(&p)}));
                    }
                };
                if let Some(i0) = lib(ctx, "identity<()>", "unit_labels", &inp, || U::identity(sf(vec![]))) {
                    walk_u(ctx, "identity<()>", &i0, 0, 0);
                    if let Some(ty) = lib(ctx, "source/target<()>", "unit_labels", &inp, || (i0.source().0 .0.len(), i0.target().0 .0.len())) {
                        ctx.check(ty == (0, 0), "source/target<()>/promised-type/value/unit_labels", || json!({"observed": format!("{:?}", ty)}));
                    }
                    if let Some(c) = libd(ctx, "compose<()>", &inp, || i0.compose(&i0)) {
                        walk_u(ctx, "compose<()>", &c, 0, 0);
                    }
                }
                if let Some(c) = lib(ctx, "compose<()>", "unit_labels", &inp, || xf.compose(&xg)) {
                    ctx.check(c.is_some() == (uf.t.len() == ug.s.len()), "compose<()>/defined-iff-arities-match/value/unit_labels", || json!({"input": inp(), "observed_some": c.is_some()}));
                    if let Some(c) = c {
                        walk_u(ctx, "compose<()>", &c, uf.s.len(), ug.t.len());
                    }
                }
                if let Some(t) = lib(ctx, "tensor<()>", "unit_labels", &inp, || xf.tensor(&xg)) {
                    walk_u(ctx, "tensor<()>", &t, uf.s.len() + ug.s.len(), uf.t.len() + ug.t.len());
                }
                let lxf = to_lax(&uf.to_lax());
                if let Some(t) = lib(ctx, "to_strict<()>", "unit_labels", &inp, || (LOh::<(), ()>::empty().to_strict(), lxf.to_strict())) {
                    walk_u(ctx, "to_strict<()>", &t.0, 0, 0);
                    walk_u(ctx, "to_strict<()>", &t.1, uf.s.len(), uf.t.len());
                }
            }
            38 => {
                // the persisted form is a conversion too: writing a lax diagram as JSON and reading it back returns a
                // well-formed diagram of the same type (the same diagram, in fact)
                let pf = gen::lax(r, &pa, 2, false);
                let x = to_lax(&pf);
                let input = || json!({"f": show_lax(&pf)});
                let fo = pf.forget_q();
                if let Some(back) = lib(ctx, "serde_round_trip", "any", &input, || serde_json::to_string(&x).ok().and_then(|t| serde_json::from_str::<L>(&t).ok())) {
                    match back {
                        Some(b) => {
                            typed_lax(ctx, "serde_round_trip", &b, &fo.src_type(), &fo.tgt_type(), &input);
                            let got = from_lax_raw(&b);
                            let norm = |q: &Vec<(usize, usize)>| { let mut v: Vec<(usize, usize)> = q.iter().map(|&(x, y)| (x.min(y), x.max(y))).collect(); v.sort(); v.dedup(); v.retain(|p| p.0 != p.1); v };
                            // nodes, hyperedges and interfaces as written; the pending pairs as a set of unordered pairs
                            ctx.check(got.w == pf.w && got.e == pf.e && got.s == pf.s && got.t == pf.t && norm(&got.q) == norm(&pf.q), "serde_round_trip/returns-the-same-diagram/value/any", || json!({"input": input(), "observed": show_lax(&got)}));
                        }
                        None => {
                            ctx.check(false, "serde_round_trip/defined/value/any", || json!({"input": input()}));
                        }
                    }
                }
            }
            36 | 37 => {
                // in-place deletions on a lax diagram (identifiers may repeat): what is left is well-formed and typed by
                // the surviving interface entries
                let pf = gen::lax(r, &pa, 2, false);
                let mut x = to_lax(&pf);
                let input = || json!({"f": show_lax(&pf)});
                if kind == 36 {
                    let n = pf.w.len();
                    let mut ids: Vec<usize> = if n == 0 { vec![] } else { let k = r.small(3); r.vec_below(k, n) };
                    if !ids.is_empty() && r.chance(1, 2) {
                        let d = ids[r.below(ids.len())];
                        ids.push(d);
                        if r.chance(1, 2) { ids.push(d); }
                    }
                    let nids: Vec<lax::NodeId> = ids.iter().map(|&i| lax::NodeId(i)).collect();
                    let keep = |iface: &Vec<usize>| -> Vec<u32> { iface.iter().filter(|v| !ids.contains(v)).map(|&v| pf.w[v]).collect() };
                    let inp = || json!({"f": show_lax(&pf), "delete_nodes": ids});
                    if lib(ctx, "delete_nodes", "any", &inp, || x.delete_nodes(&nids)).is_some() {
                        typed_lax(ctx, "delete_nodes", &x, &keep(&pf.s), &keep(&pf.t), &inp);
                        ctx.check(x.hypergraph.nodes.len() + { let mut d = ids.clone(); d.sort(); d.dedup(); d.len() } == n, "delete_nodes/removes-exactly-the-named-nodes/value/any", || json!({"input": inp(), "observed_nodes": x.hypergraph.nodes.len()}));
                    }
                } else {
                    let m = pf.e.len();
                    let mut ids: Vec<usize> = if m == 0 { vec![] } else { let k = r.small(3); r.vec_below(k, m) };
                    if !ids.is_empty() && r.chance(1, 2) {
                        let d = ids[r.below(ids.len())];
                        ids.push(d);
                        ids.push(d);
                    }
                    let eids: Vec<lax::EdgeId> = ids.iter().map(|&i| lax::EdgeId(i)).collect();
                    let fo = pf.forget_q();
                    let inp = || json!({"f": show_lax(&pf), "delete_edges": ids});
                    if lib(ctx, "delete_edges", "any", &inp, || x.delete_edges(&eids)).is_some() {
                        typed_lax(ctx, "delete_edges", &x, &fo.src_type(), &fo.tgt_type(), &inp);
                        ctx.check(x.hypergraph.edges.len() + { let mut d = ids.clone(); d.sort(); d.dedup(); d.len() } == m, "delete_edges/removes-exactly-the-named-edges/value/any", || json!({"input": inp(), "observed_edges": x.hypergraph.edges.len()}));
                    }
                }
                let _ = &input;
            }
            32 => {
                if let Some(x) = lib(ctx, "lax::Identity functor", "any", &input, || lax::functor::dyn_functor::Identity.map_arrow(&to_lax(&f.to_lax()))) { typed_lax(ctx, "lax_identity_functor", &x, &fs, &ft, &input); }
            }
            _ => {
                let lo = LaxOptic(OSpec::Poly);
                let c = poly_circuit(r, 3, 4);
                let input = || json!({"circuit": show(&c)});
                let ty = |n: usize| vec![0u32; n];
                if let Some(x) = lib(ctx, "lax_optic_map_arrow", "any", &input, || lo.map_arrow(to_lax(&c.to_lax()))) {
                    typed_lax(ctx, "lax_optic_map_arrow", &x, &ty(2 * c.s.len()), &ty(2 * c.t.len()), &input);
                }
            }
        }
        if kind % 7 == 0 {
            ctx.sample(&format!("operation_kind_{}", kind), || input());
        }
    }

    fn constructors(&self, ctx: &mut Ctx, r: &mut Rng) {
        match r.below(6) {
            0 => {
                // FiniteFunction::new at max = target-1, target, target+1
                let target = r.small(5);
                let n = r.small(4);
                let mut table: Vec<usize> = (0..n).map(|_| if target > 0 { r.below(target) } else { 0 }).collect();
                let place = r.below(4);
                if n > 0 {
                    let k = r.below(n);
                    match place {
                        0 => { if target > 0 { table[k] = target - 1; } }
                        1 => table[k] = target,
                        2 => table[k] = target + 1,
                        _ => {}
                    }
                }
                let want = table.iter().all(|&x| x < target);
                let input = json!({"table": table, "target": target});
                ctx.class(if want { "FiniteFunction::new_accept" } else { "FiniteFunction::new_reject" });
                ctx.nontrivial(&("ff", &table, target));
                let res = guard(|| FiniteFunction::<VecKind>::new(VecArray(table.clone()), target));
                if let Some(o) = must_return(ctx, "FiniteFunction::new", "any", res, || input.clone()) {
                    ctx.check(o.is_some() == want, "FiniteFunction::new/accepts-iff-max<target/value/any", || json!({"input": input, "observed_some": o.is_some(), "expected_some": want}));
                    if let Some(f) = &o {
                        ctx.check(f.table.0 == table && f.target == target, "FiniteFunction::new/returns-the-given-data/value/any", || json!({"input": input, "observed": format!("{:?} -> {}", f.table.0, f.target)}));
                    }
                }
            }
            1 => {
                // IndexedCoproduct::new / from_semifinite
                let sizes: Vec<usize> = { let k = r.small(4); (0..k).map(|_| r.small(3)).collect() };
                let sum: usize = sizes.iter().sum();
                let vlen = bump(sum, DELTA[r.below(5)]);
                let tgt = bump(sum + 1, DELTA[r.below(5)]);
                let want = vlen == sum && tgt == sum + 1;
                let input = json!({"sizes": sizes, "sizes_codomain": tgt, "values_len": vlen});
                ctx.class(if want { "IndexedCoproduct::new_accept" } else { "IndexedCoproduct::new_reject" });
                ctx.nontrivial(&("ic", &sizes, tgt, vlen));
                let vals: Vec<usize> = (0..vlen).collect();
                let res = guard(|| IndexedCoproduct::<VecKind, FF>::new(ff(sizes.clone(), tgt), ff(vals.clone(), vlen.max(1) + 2)));
                if let Some(o) = must_return(ctx, "IndexedCoproduct::new", "any", res, || input.clone()) {
                    ctx.check(o.is_some() == want, "IndexedCoproduct::new/accepts-iff-sizes-sum-to-length/value/any", || json!({"input": input, "observed_some": o.is_some(), "expected_some": want}));
                    if let Some(c) = &o {
                        let same = c.sources.table.0 == sizes && c.sources.target == tgt && c.values.table.0 == vals && c.values.target == vlen.max(1) + 2;
                        ctx.check(same, "IndexedCoproduct::new/returns-the-given-data/value/any", || json!({"input": input, "observed": format!("{:?}", seg_to_lists(c))}));
                    }
                }
                let svals: Vec<u32> = (0..vlen as u32).collect();
                let res = guard(|| IndexedCoproduct::<VecKind, SF<u32>>::from_semifinite(sf(sizes.clone()), sf(svals.clone())));
                if let Some(o) = must_return(ctx, "IndexedCoproduct::from_semifinite", "any", res, || input.clone()) {
                    ctx.check(o.is_some() == (vlen == sum), "IndexedCoproduct::from_semifinite/accepts-iff-sizes-sum-to-length/value/any", || json!({"input": input, "observed_some": o.is_some(), "expected_some": vlen == sum}));
                    if let Some(c) = &o {
                        let same = c.sources.table.0 == sizes && c.sources.target == sum + 1 && c.values.0 .0 == svals;
                        ctx.check(same, "IndexedCoproduct::from_semifinite/returns-the-given-data/value/any", || json!({"input": input, "observed": format!("{:?}", segs_to_lists(c))}));
                    }
                }
            }
            2 => {
                let n = r.small(4);
                let (na, nb) = (bump(n, DELTA[r.below(5)]), bump(n, DELTA[r.below(5)]));
                let want = na == n && nb == n;
                let input = json!({"labels": n, "source_types": na, "target_types": nb});
                ctx.class(if want { "Operations::new_accept" } else { "Operations::new_reject" });
                ctx.nontrivial(&("ops", n, na, nb));
                let labels: Vec<u64> = (0..n as u64).map(|k| 10 + k).collect();
                let al: Vec<Vec<u32>> = (0..na).map(|k| vec![k as u32]).collect();
                let bl: Vec<Vec<u32>> = (0..nb).map(|k| vec![100 + k as u32, 1]).collect();
                let res = guard(|| Operations::<VecKind, u32, u64>::new(sf(labels.clone()), segs_from_lists(&al), segs_from_lists(&bl)));
                if let Some(o) = must_return(ctx, "Operations::new", "any", res, || input.clone()) {
                    ctx.check(o.is_some() == want, "Operations::new/accepts-iff-one-type-per-label/value/any", || json!({"input": input, "observed_some": o.is_some(), "expected_some": want}));
                    if let Some(ops) = &o {
                        let same = ops.x.0 .0 == labels && segs_to_lists(&ops.a).ok() == Some(al.clone()) && segs_to_lists(&ops.b).ok() == Some(bl.clone());
                        ctx.check(same, "Operations::new/returns-the-given-data/value/any", || json!({"input": input, "observed_labels": ops.x.0 .0.clone(), "observed_a": format!("{:?}", segs_to_lists(&ops.a)), "observed_b": format!("{:?}", segs_to_lists(&ops.b))}));
                    }
                }
            }
            3 | 4 => {
                // Hypergraph::new and OpenHypergraph::new: the four + two conditions, one off at a time
                let nw = r.range(0, 4);
                let ne = r.small(3);
                let d: Vec<isize> = (0..6).map(|_| DELTA[r.below(5)]).collect();
                let (ns, nt) = (bump(ne, d[0]), bump(ne, d[1]));
                let (ts, tt) = (bump(nw, d[2]), bump(nw, d[3]));
                let (is_, it) = (bump(nw, d[4]), bump(nw, d[5]));
                let seg = |r: &mut Rng, n: usize, target: usize| -> Seg {
                    let lists: Vec<Vec<usize>> = (0..n).map(|_| { let k = if target == 0 { 0 } else { r.small(2) }; r.vec_below(k, target.max(1)) }).collect();
                    seg_from_lists(&lists, target)
                };
                let (s, t) = (seg(r, ns, ts), seg(r, nt, tt));
                let want_h = ns == ne && nt == ne && ts == nw && tt == nw;
                let input = json!({"nodes": nw, "edges": ne, "source_segments": ns, "target_segments": nt, "source_incidence_codomain": ts, "target_incidence_codomain": tt, "s_codomain": is_, "t_codomain": it});
                ctx.class(if want_h { "Hypergraph::new_accept" } else { "Hypergraph::new_reject" });
                ctx.nontrivial(&("hg", nw, ne, &d));
                let (s2, t2) = (s.clone(), t.clone());
                let wl: Vec<u32> = (0..nw as u32).collect();
                let xl: Vec<u64> = (0..ne as u64).map(|k| 50 + k).collect();
                let res = guard(|| Hypergraph::<VecKind, u32, u64>::new(s, t, sf(wl.clone()), sf(xl.clone())));
                if let Some(o) = must_return(ctx, "Hypergraph::new", "any", res, || input.clone()) {
                    ctx.check(o.is_ok() == want_h, "Hypergraph::new/accepts-iff-counts-and-codomains-agree/value/any", || json!({"input": input, "observed_ok": o.is_ok(), "expected_ok": want_h, "error": format!("{:?}", o.as_ref().err())}));
                    ctx.count(&format!("error_variant:{}", match &o { Ok(_) => "none".to_string(), Err(e) => format!("{:?}", e).split('(').next().unwrap_or("").to_string() }));
                    if let Ok(h) = &o {
                        let same = seg_to_lists(&h.s).ok() == seg_to_lists(&s2).ok() && seg_to_lists(&h.t).ok() == seg_to_lists(&t2).ok()
                            && h.s.values.target == ts && h.t.values.target == tt && h.w.0 .0 == wl && h.x.0 .0 == xl;
                        ctx.check(same, "Hypergraph::new/returns-the-given-data/value/any", || json!({"input": input, "observed_s": format!("{:?}", seg_to_lists(&h.s)), "observed_t": format!("{:?}", seg_to_lists(&h.t))}));
                    }
                }
                let want_o = want_h && is_ == nw && it == nw;
                ctx.class(if want_o { "OpenHypergraph::new_accept" } else { "OpenHypergraph::new_reject" });
                let h = Hypergraph { s: s2.clone(), t: t2.clone(), w: sf(wl.clone()), x: sf(xl.clone()) };
                // non-empty, different legs (each a valid finite function of its own codomain)
                let ls: Vec<usize> = if is_ == 0 { vec![] } else { let k = r.small(3); r.vec_below(k, is_) };
                let lt: Vec<usize> = if it == 0 { vec![] } else { let k = r.small(3) + 1; r.vec_below(k, it) };
                let res = guard(|| OpenHypergraph::<VecKind, u32, u64>::new(ff(ls.clone(), is_), ff(lt.clone(), it), h));
                if let Some(o) = must_return(ctx, "OpenHypergraph::new", "any", res, || input.clone()) {
                    ctx.check(o.is_ok() == want_o, "OpenHypergraph::new/accepts-iff-cospan-legs-land-in-nodes/value/any", || json!({"input": input, "observed_ok": o.is_ok(), "expected_ok": want_o}));
                    if let Ok(f) = &o {
                        let same = f.s.table.0 == ls && f.s.target == is_ && f.t.table.0 == lt && f.t.target == it
                            && seg_to_lists(&f.h.s).ok() == seg_to_lists(&s2).ok() && seg_to_lists(&f.h.t).ok() == seg_to_lists(&t2).ok()
                            && f.h.w.0 .0 == wl && f.h.x.0 .0 == xl;
                        ctx.check(same && wf_strict(f).is_empty(), "OpenHypergraph::new/returns-the-given-data/value/any", || json!({"input": input, "legs": [ls.clone(), lt.clone()], "observed_legs": [f.s.table.0.clone(), f.t.table.0.clone()]}));
                    }
                }
            }
            _ => {
                // spiders: strict and lax
                let n = r.small(4);
                let (sc, tc) = (bump(n, DELTA[r.below(5)]), bump(n, DELTA[r.below(5)]));
                let want = sc == n && tc == n;
                let input = json!({"nodes": n, "s_codomain": sc, "t_codomain": tc});
                ctx.class(if want { "spider_accept" } else { "spider_reject" });
                ctx.nontrivial(&("sp", n, sc, tc));
                let res = guard(|| S::spider(ff(vec![], sc), ff(vec![], tc), sf(vec![0u32; n])));
                if let Some(o) = must_return(ctx, "spider", "any", res, || input.clone()) {
                    ctx.check(o.is_some() == want, "spider/accepts-iff-legs-land-in-nodes/value/any", || json!({"input": input, "observed_some": o.is_some()}));
                }
                let res = guard(|| L::spider(ff(vec![], sc), ff(vec![], tc), vec![0u32; n]));
                if let Some(o) = must_return(ctx, "lax::spider", "any", res, || input.clone()) {
                    ctx.check(o.is_some() == want, "lax::spider/accepts-iff-legs-land-in-nodes/value/any", || json!({"input": input, "observed_some": o.is_some()}));
                }
            }
        }
    }
}

const KINDS: [&str; 40] = [
    "delete_nodes", "delete_edges", "serde_round_trip", "unit_labels",
    "forget", "forget_monogamous",
    "identity", "twist", "singleton", "tensor_operations", "tensor", "bitor", "dagger", "compose", "shr", "spider", "half_spider", "functor_map_arrow", "identity_functor",
    "optic_map_arrow", "optic_adapt", "to_strict", "from_strict", "lax::identity", "lax::twist", "lax::singleton", "lax::tensor", "lax::compose", "lax_compose", "lax::dagger",
    "tensor_assign", "quotient", "lax_functor_map_arrow", "lax_optic_map_adapted", "lax::spider", "Hypergraph::coproduct", "coequalize_vertices", "validate_on_result",
    "lax_identity_functor", "lax_optic_map_arrow",
];

impl Monitor for C05 {
    fn id(&self) -> &'static str {
        "C05"
    }
    fn rule(&self) -> &'static str {
        "cases: (a) a mixed workload over 40 kinds of public constructor / operation of the strict and lax modules (identity, twist, singleton, tensor_operations, tensor, |, dagger, compose, >>, \
         spider, half_spider, functor and optic application incl. adapt, Identity functors, to_strict / from_strict, lax identity / twist / singleton / tensor / compose / lax_compose / dagger / \
         spider / tensor_assign / quotient, lax functor and lax optic entry points, hypergraph coproduct / discrete / coequalize_vertices, validate() on composites) on seeded well-formed arguments: \
         every returned diagram is walked by the deep well-formedness checker (segment counts, sizes summing to value length, size codomain = sum+1, every incidence and interface entry in range, \
         codomains = node count) and its source and target types compared with the promised ones; (b) raw data handed to FiniteFunction::new (max = target-1/target/target+1), IndexedCoproduct::new / \
         from_semifinite (sum +-1, codomain +-1), Operations::new (counts +-1), Hypergraph::new (four conditions, each off by one), OpenHypergraph::new (two more), strict and lax spider: accepted iff \
         the documented conditions hold. The cross-cutting counters wf:* in every other check's evidence come from the same walker. non-trivial = returned diagram with >=1 hyperedge or a constructor \
         decision; distinct = hash of (kind, result) / raw data. Also: every accepted constructor value is compared field by field with the raw data handed in (non-empty, different legs; zero nodes allowed), and a partial operation returning None on well-typed arguments is a violation. Round 8: compose is also called with an arbitrary second operand and with the matching operand relabelled at one boundary position (same arity, different type): whatever it returns must be well-formed with source from the left and target from the right."
    }
    fn corpus_len(&self) -> u64 {
        0
    }
    fn floors(&self) -> Vec<(&'static str, u64)> {
        let mut v: Vec<(&'static str, u64)> = KINDS.iter().map(|k| {
            let s: &'static str = Box::leak(format!("op:{}", k).into_boxed_str());
            (s, 50)
        }).collect();
        for c in ["FiniteFunction::new", "IndexedCoproduct::new", "Operations::new", "Hypergraph::new", "OpenHypergraph::new", "spider"] {
            for o in ["accept", "reject"] {
                let s: &'static str = Box::leak(format!("class:{}_{}", c, o).into_boxed_str());
                v.push((s, 30));
            }
        }
        v.push(("wf:walked", 2000));
        v
    }
    fn run_case(&self, _idx: u64, r: &mut Rng, ctx: &mut Ctx) {
        if r.chance(1, 4) {
            self.constructors(ctx, r);
        } else {
            self.operations(ctx, r);
        }
    }
}
