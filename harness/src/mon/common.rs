//! Helpers shared by the monitors: rendering, the result-vs-model oracle, the Monitor trait.

use crate::conv::*;
use crate::ctx::*;
use crate::iso::{iso_budget, Iso, DEFAULT_BUDGET};
use crate::model::*;
use crate::rng::Rng;
use serde_json::{json, Value};

pub trait Monitor {
    fn id(&self) -> &'static str;
    /// generation + non-triviality rule, copied into the evidence file
    fn rule(&self) -> &'static str;
    /// number of fixed hostile corpus cases (case indices 0..corpus_len)
    fn corpus_len(&self) -> u64;
    /// counters that must be reached (summed over all shards of one profile) for "held"
    fn floors(&self) -> Vec<(&'static str, u64)>;
    /// does this monitor rely on the isomorphism procedure (then it is self-tested first)
    fn uses_iso(&self) -> bool {
        false
    }
    fn run_case(&self, idx: u64, r: &mut Rng, ctx: &mut Ctx);
}

pub fn show<O: Lbl, A: Lbl>(p: &POh<O, A>) -> String {
    let es: Vec<String> =
        p.e.iter().map(|e| format!("{:?}:{:?}->{:?}", e.l, e.s, e.t)).collect();
    format!("w={:?} e=[{}] s={:?} t={:?}", p.w, es.join(", "), p.s, p.t)
}

pub fn show_lax<O: Lbl, A: Lbl>(p: &PLax<O, A>) -> String {
    format!("{} q={:?}", show(&p.forget_q()), p.q)
}

/// Walk a returned strict diagram: deep well-formedness; counts towards the cross-cutting C05
/// counters of whichever check is running. Returns the plain form when well-formed.
pub fn walk<O: Lbl, A: Lbl>(
    ctx: &mut Ctx,
    api: &str,
    class: &str,
    f: &SOh<O, A>,
    input: &dyn Fn() -> Value,
) -> Option<POh<O, A>> {
    ctx.count("wf:walked");
    ctx.count(&format!("wf:{}", api));
    let errs = wf_strict(f);
    ctx.evaluations += 1;
    if !errs.is_empty() {
        ctx.violation(
            &format!("{}/well-formed/value/{}", api, class),
            json!({"input": input(), "observed": errs, "expected": "well-formed result"}),
        );
        return None;
    }
    match from_strict(f) {
        Ok(p) => Some(p),
        Err(e) => {
            ctx.violation(
                &format!("{}/well-formed/value/{}", api, class),
                json!({"input": input(), "observed": e, "expected": "well-formed result"}),
            );
            None
        }
    }
}

pub fn walk_lax<O: Lbl, A: Lbl>(
    ctx: &mut Ctx,
    api: &str,
    class: &str,
    f: &LOh<O, A>,
    input: &dyn Fn() -> Value,
) -> Option<PLax<O, A>> {
    ctx.count("wf:walked");
    ctx.count(&format!("wf:{}", api));
    let errs = wf_lax(f);
    ctx.evaluations += 1;
    if !errs.is_empty() {
        ctx.violation(
            &format!("{}/well-formed/value/{}", api, class),
            json!({"input": input(), "observed": errs, "expected": "well-formed result"}),
        );
        return None;
    }
    from_lax(f).ok()
}

/// Decide `got ≅ want`; `Budget` is counted as an inconclusive case.
pub fn expect_iso<O: Lbl, A: Lbl>(
    ctx: &mut Ctx,
    api: &str,
    clause: &str,
    class: &str,
    got: &POh<O, A>,
    want: &POh<O, A>,
    input: &dyn Fn() -> Value,
) -> bool {
    ctx.count("iso:searches");
    let (r, steps) = iso_budget(got, want, DEFAULT_BUDGET);
    ctx.max("iso:max_steps", steps);
    match r {
        Iso::Yes => {
            ctx.evaluations += 1;
            true
        }
        Iso::Budget => {
            // counted; the driver turns more than 0.1% + 2 unjudged searches into an inconclusive verdict
            ctx.count("iso:budget_exhausted");
            false
        }
        Iso::No(why) => {
            ctx.evaluations += 1;
            ctx.violation(
                &format!("{}/{}/value/{}", api, clause, class),
                json!({
                    "input": input(),
                    "observed": show(got),
                    "expected_up_to_iso": show(want),
                    "why_not_isomorphic": why,
                }),
            );
            false
        }
    }
}

/// Full oracle for "library returned diagram `f`, model says it must be ≅ `want`".
pub fn expect_diagram<O: Lbl, A: Lbl>(
    ctx: &mut Ctx,
    api: &str,
    clause: &str,
    class: &str,
    f: &SOh<O, A>,
    want: &POh<O, A>,
    input: &dyn Fn() -> Value,
) -> Option<POh<O, A>> {
    let got = walk(ctx, api, class, f, input)?;
    // promised type, position by position
    let ty_ok = got.src_type() == want.src_type() && got.tgt_type() == want.tgt_type();
    ctx.evaluations += 1;
    if !ty_ok {
        ctx.violation(
            &format!("{}/type/value/{}", api, class),
            json!({
                "input": input(),
                "observed_type": format!("{:?} -> {:?}", got.src_type(), got.tgt_type()),
                "expected_type": format!("{:?} -> {:?}", want.src_type(), want.tgt_type()),
            }),
        );
        return Some(got);
    }
    expect_iso(ctx, api, clause, class, &got, want, input);
    Some(got)
}

/// Field-for-field equality of two plain diagrams ("on the nose").
pub fn expect_equal<O: Lbl, A: Lbl>(
    ctx: &mut Ctx,
    api: &str,
    clause: &str,
    class: &str,
    got: &POh<O, A>,
    want: &POh<O, A>,
    input: &dyn Fn() -> Value,
) -> bool {
    ctx.evaluations += 1;
    if got != want {
        ctx.violation(
            &format!("{}/{}/value/{}", api, clause, class),
            json!({"input": input(), "observed": show(got), "expected_exactly": show(want)}),
        );
        return false;
    }
    true
}

/// Run a library call that must return; a panic is recorded as a violation of `<api>/returns`.
pub fn lib<T>(ctx: &mut Ctx, api: &str, class: &str, input: &dyn Fn() -> Value, f: impl FnOnce() -> T) -> Option<T> {
    let r = guard(f);
    must_return(ctx, api, class, r, || input())
}

/// Both sides of a law, computed through the public API, must exist, be well-formed and be
/// isomorphic.
pub fn law<O: Lbl, A: Lbl>(
    ctx: &mut Ctx,
    name: &str,
    class: &str,
    lhs: Option<SOh<O, A>>,
    rhs: Option<SOh<O, A>>,
    input: &dyn Fn() -> Value,
) -> Option<POh<O, A>> {
    ctx.count(&format!("law:{}", name));
    let (l, r) = match (lhs, rhs) {
        (Some(l), Some(r)) => (l, r),
        (l, r) => {
            ctx.evaluations += 1;
            ctx.violation(
                &format!("{}/both-sides-defined/value/{}", name, class),
                json!({"input": input(), "lhs_defined": l.is_some(), "rhs_defined": r.is_some()}),
            );
            return None;
        }
    };
    let pl = walk(ctx, name, class, &l, input)?;
    let pr = walk(ctx, name, class, &r, input)?;
    let ty = pl.src_type() == pr.src_type() && pl.tgt_type() == pr.tgt_type();
    if !ctx.check(ty, &format!("{}/same-type/value/{}", name, class), || {
        json!({"input": input(), "lhs": show(&pl), "rhs": show(&pr)})
    }) {
        return None;
    }
    expect_iso(ctx, name, "law", class, &pl, &pr, input);
    Some(pl)
}

/// A diagram produced by a *pipeline of library operations* instead of being written down field by field:
/// (f ; g) | h, or (f | h) ; (g | id), daggered twice, pushed through the lax representation (right-nested lax
/// composition, quotient) and through the library's identity functor -- with predicates asked of the parts on the
/// way. Whatever comes out is read back field by field; a monitor then judges its own operation on that value
/// against the oracle applied to what was read. Returns None when the pipeline itself misbehaves (other
/// monitors own that).
pub fn library_built<A: Lbl>(r: &mut Rng, f: &POh<u32, A>, g: &POh<u32, A>, h: &POh<u32, A>) -> Option<(SOh<u32, A>, POh<u32, A>, &'static str)> {
    use open_hypergraphs::category::{Arrow, Monoidal, Spider};
    use open_hypergraphs::lax;
    use open_hypergraphs::strict::functor::Functor;
    let (lf, lg, lh) = (to_strict(f), to_strict(g), to_strict(h));
    let which = r.below(5);
    let res = guard(|| -> Option<SOh<u32, A>> {
        // (structural predicates are queried on the operands first: they must not leave anything behind)
        let _ = (lf.is_acyclic(), lg.is_acyclic(), lh.is_acyclic());
        Some(match which {
            0 => lf.compose(&lg)?.tensor(&lh),
            1 => lf.tensor(&lh).compose(&lg.tensor(&SOh::identity(lh.target())))?,
            2 => lf.compose(&lg)?.dagger().dagger().tensor(&lh),
            3 => {
                // through the lax representation: f ; (g ; id) right-nested, tensored, then made strict by the library
                let (xf, xg, xh) = (lax::OpenHypergraph::from_strict(lf.clone()), lax::OpenHypergraph::from_strict(lg.clone()), lax::OpenHypergraph::from_strict(lh.clone()));
                let idb = lax::OpenHypergraph::identity(Arrow::target(&xg));
                let inner = Arrow::compose(&xg, &idb)?;
                let c = Arrow::compose(&xf, &inner)?;
                xh.tensor(&c).to_strict()
            }
            _ => open_hypergraphs::strict::functor::identity::Identity.map_arrow(&lf.compose(&lg)?.tensor(&lh)),
        })
    });
    let x = match res {
        Ok(Some(x)) => x,
        _ => return None,
    };
    let p = from_strict(&x).ok()?;
    Some((x, p, ["(f;g)|h", "(f|h);(g|id)", "((f;g)++)|h", "h|(f;(g;id)) via lax", "Id((f;g)|h)"][which]))
}
