//! C06 Finite functions form a category with coproducts and coequalizers.

use super::common::*;
use crate::conv::*;
use crate::ctx::*;
use crate::model::{components, same_partition};
use crate::rng::Rng;
use open_hypergraphs::array::vec::{VecArray, VecKind};
use open_hypergraphs::category::{Arrow, Coproduct, Monoidal, SymmetricMonoidal};
use open_hypergraphs::finite_function::{coequalizer_universal, FiniteFunction};
use open_hypergraphs::semifinite::{compose_semifinite, SemifiniteArrow, SemifiniteFunction, SemifiniteObject};
use serde_json::{json, Value};

thread_local! {
    static OBS_SEMIFINITE_EXTRAS: std::cell::Cell<bool> = const { std::cell::Cell::new(true) };
}

pub struct C06;

type F = (Vec<usize>, usize); // (table, target)

/// all functions with source <= 3 and target <= 3
fn small_functions() -> Vec<F> {
    let mut out = vec![];
    for t in 0..=3usize {
        for s in 0..=3usize {
            if t == 0 && s > 0 {
                continue;
            }
            let count = t.pow(s as u32).max(1);
            for mut k in 0..count {
                let mut tab = vec![];
                for _ in 0..s {
                    tab.push(k % t.max(1));
                    k /= t.max(1);
                }
                out.push((tab, t));
            }
        }
    }
    out
}

fn gen_f(r: &mut Rng, max_src: usize, max_tgt: usize) -> F {
    let t = r.small(max_tgt);
    let s = if t == 0 { 0 } else { r.small(max_src) };
    (r.vec_below(s, t.max(1)), t)
}

fn fj(f: &F) -> Value {
    json!({"table": f.0, "target": f.1})
}

fn eq(ctx: &mut Ctx, api: &str, clause: &str, got: &FF, want: &F, input: &Value) {
    ctx.api(api);
    ctx.check(got.table.0 == want.0 && got.target == want.1, &format!("{}/{}/value/any", api, clause), || {
        json!({"input": input, "observed": {"table": got.table.0, "target": got.target}, "expected": fj(want)})
    });
}

macro_rules! call {
    ($ctx:expr, $api:expr, $input:expr, $e:expr) => {{
        let r = guard(|| $e);
        must_return($ctx, $api, "any", r, || $input.clone())
    }};
}

impl C06 {
    fn pair(&self, ctx: &mut Ctx, f: &F, g: &F) {
        let input = json!({"f": fj(f), "g": fj(g)});
        if !f.0.is_empty() || !g.0.is_empty() {
            ctx.nontrivial(&(f, g));
        }
        if f.0.is_empty() {
            ctx.class("empty_domain");
        }
        if f.1 == 0 {
            ctx.class("empty_codomain");
        }
        let (lf, lg) = (ff(f.0.clone(), f.1), ff(g.0.clone(), g.1));
        // source / target
        ctx.check(lf.source() == f.0.len() && lf.target() == f.1, "source,target/type/value/any", || json!({"input": input}));
        // composition: defined exactly when codomain and domain agree; pointwise application
        let composable = f.1 == g.0.len();
        for api in ["compose", "shr"] {
            let res = if api == "compose" { call!(ctx, api, input, lf.compose(&lg)) } else { call!(ctx, api, input, &lf >> &lg) };
            if let Some(c) = res {
                ctx.evaluations += 1;
                match (composable, c) {
                    (true, Some(h)) => {
                        ctx.outcome("compose_Some");
                        eq(ctx, api, "pointwise-application", &h, &(f.0.iter().map(|&i| g.0[i]).collect(), g.1), &input)
                    }
                    (false, None) => ctx.outcome("compose_None"),
                    (c0, h) => ctx.violation(&format!("{}/defined-iff-types-agree/value/any", api), json!({"input": input, "expected_some": c0, "observed_some": h.is_some()})),
                }
            }
        }
        // coproduct: defined iff same codomain
        for api in ["coproduct", "add"] {
            let res = if api == "coproduct" { call!(ctx, api, input, lf.coproduct(&lg)) } else { call!(ctx, api, input, &lf + &lg) };
            if let Some(c) = res {
                ctx.evaluations += 1;
                match (f.1 == g.1, c) {
                    (true, Some(h)) => {
                        let mut t = f.0.clone();
                        t.extend(g.0.iter().cloned());
                        eq(ctx, api, "copairing", &h, &(t, f.1), &input)
                    }
                    (false, None) => {}
                    (c0, h) => ctx.violation(&format!("{}/defined-iff-same-codomain/value/any", api), json!({"input": input, "expected_some": c0, "observed_some": h.is_some()})),
                }
            }
        }
        // tensor
        for api in ["tensor", "bitor"] {
            let res = if api == "tensor" { call!(ctx, api, input, lf.tensor(&lg)) } else { call!(ctx, api, input, &lf | &lg) };
            if let Some(h) = res {
                let mut t = f.0.clone();
                t.extend(g.0.iter().map(|&x| x + f.1));
                eq(ctx, api, "side-by-side", &h, &(t, f.1 + g.1), &input);
            }
        }
        // coequalizer of parallel maps
        let parallel = f.0.len() == g.0.len() && f.1 == g.1;
        if let Some(q) = call!(ctx, "coequalizer", input, lf.coequalizer(&lg)) {
            ctx.evaluations += 1;
            match (parallel, q) {
                (false, None) => ctx.outcome("coequalizer_None"),
                (true, Some(q)) => {
                    ctx.outcome("coequalizer_Some");
                    let pairs: Vec<(usize, usize)> = f.0.iter().cloned().zip(g.0.iter().cloned()).collect();
                    let (cls, k) = components(f.1, &pairs);
                    let qt = &q.table.0;
                    let onto = (0..q.target).all(|c| qt.contains(&c)) && qt.iter().all(|&c| c < q.target);
                    let coeq = f.0.iter().zip(g.0.iter()).all(|(&a, &b)| a < qt.len() && b < qt.len() && qt[a] == qt[b]);
                    ctx.check(qt.len() == f.1 && q.target == k && onto && coeq, "coequalizer/surjective-and-coequalizes/value/any", || json!({"input": input, "observed": qt, "observed_target": q.target}));
                    // identifies no two elements that are not linked by a chain of pairs
                    ctx.check(same_partition(qt, &cls), "coequalizer/identifies-only-linked-elements/value/any", || json!({"input": input, "observed": qt, "expected_partition": cls}));
                    if pairs.len() >= 2 {
                        ctx.class("chain_of_identifications");
                    }
                }
                (p, q) => ctx.violation("coequalizer/defined-iff-parallel/value/any", json!({"input": input, "expected_some": p, "observed_some": q.is_some()})),
            }
        }
    }

    /// A coequalizer over some points, then exactly 2^8 - 1 or 2^16 - 1 unrelated tiny coequalizer calls on this thread,
    /// then a different coequalizer over the same points: the second answer must be the one for its own pairs (what
    /// an earlier call computed, however many calls ago, is not an input).
    fn call_counter_wrap(&self, ctx: &mut Ctx, r: &mut Rng) {
        let wrap: usize = if r.chance(1, 8) { 1 << 16 } else { 1 << 8 };
        ctx.class(if wrap == 256 { "call_counter_wrap_256" } else { "call_counter_wrap_65536" });
        let n = r.range(6, 40);
        let lo = r.range(2, n - 2);
        let judge = |ctx: &mut Ctx, pairs: &Vec<(usize, usize)>, when: &str| {
            let f: F = (pairs.iter().map(|p| p.0).collect(), n);
            let g: F = (pairs.iter().map(|p| p.1).collect(), n);
            let input = json!({"f": fj(&f), "g": fj(&g), "history": when});
            let (lf, lg) = (ff(f.0.clone(), n), ff(g.0.clone(), n));
            if let Some(Some(q)) = call!(ctx, "coequalizer", input, lf.coequalizer(&lg)) {
                let (cls, k) = components(n, pairs);
                let qt = &q.table.0;
                let ok = qt.len() == n && q.target == k && qt.iter().all(|&c| c < q.target) && same_partition(qt, &cls);
                ctx.check(ok, "coequalizer/identifies-only-linked-elements/value/call_history", || json!({"input": input, "observed": qt, "observed_target": q.target, "expected_partition": cls}));
            }
        };
        // first call: identifications among the points lo.. only (possibly none: the discrete case)
        let k1 = r.below(4);
        let first: Vec<(usize, usize)> = (0..k1).map(|_| (r.range(lo, n - 1), r.range(lo, n - 1))).collect();
        judge(ctx, &first, "first call");
        // unrelated calls on the points 0 and 1 of a two-point set
        let (a, b) = (ff(vec![0], 2), ff(vec![1], 2));
        let (c, d) = (ff(vec![], 2), ff(vec![], 2));
        let mut sink = 0usize;
        let between = guard(|| {
            for i in 0..wrap - 1 {
                let q = if i % 2 == 0 { a.coequalizer(&b) } else { c.coequalizer(&d) };
                sink += q.map(|q| q.target).unwrap_or(0);
            }
            sink
        });
        if between.is_err() {
            ctx.inconclusive("call_counter_wrap: a tiny coequalizer call panicked");
            return;
        }
        let k2 = r.range(1, 4);
        let second: Vec<(usize, usize)> = (0..k2).map(|_| (r.range(lo, n - 1), r.range(0, n - 1))).collect();
        judge(ctx, &second, &format!("after {} unrelated calls", wrap - 1));
        judge(ctx, &first, "the first call again");
    }

    fn single(&self, ctx: &mut Ctx, f: &F, r: &mut Rng) {
        let input = json!({"f": fj(f)});
        let lf = ff(f.0.clone(), f.1);
        let n = f.0.len();
        if n > 0 {
            ctx.nontrivial(&("single", f));
        }
        // injectivity
        let mut d = f.0.clone();
        d.sort();
        d.dedup();
        let inj = d.len() == n;
        if !inj {
            ctx.class("non_injective");
        }
        if let Some(b) = call!(ctx, "is_injective", input, lf.is_injective()) {
            ctx.check(b == inj, "is_injective/definition/value/any", || json!({"input": input, "observed": b}));
        }
        // inject0 / inject1 / to_initial / cumulative_sum
        let (a, b) = (r.small(4), r.small(4));
        if let Some(h) = call!(ctx, "inject0", input, lf.inject0(b)) {
            eq(ctx, "inject0", "f;inj0", &h, &(f.0.clone(), f.1 + b), &input);
        }
        if let Some(h) = call!(ctx, "inject1", input, lf.inject1(a)) {
            eq(ctx, "inject1", "f;inj1", &h, &(f.0.iter().map(|&x| x + a).collect(), f.1 + a), &input);
        }
        if let Some(h) = call!(ctx, "to_initial", input, lf.to_initial()) {
            eq(ctx, "to_initial", "0->B", &h, &(vec![], f.1), &input);
        }
        if let Some(h) = call!(ctx, "cumulative_sum", input, lf.cumulative_sum()) {
            let mut acc = 0;
            let mut t = vec![];
            for &x in &f.0 {
                t.push(acc);
                acc += x;
            }
            eq(ctx, "cumulative_sum", "exclusive-prefix-sums", &h, &(t, acc), &input);
        }
        // identities are units
        if let Some(h) = call!(ctx, "identity;f", input, FF::identity(n).compose(&lf)) {
            ctx.check(h.as_ref().map(|h| (&h.table.0, h.target)) == Some((&f.0, f.1)), "compose/left-identity/value/any", || json!({"input": input}));
        }
        if let Some(h) = call!(ctx, "f;identity", input, lf.compose(&FF::identity(f.1))) {
            ctx.check(h.as_ref().map(|h| (&h.table.0, h.target)) == Some((&f.0, f.1)), "compose/right-identity/value/any", || json!({"input": input}));
        }
        // pre-composition with a label array
        let labels: Vec<String> = (0..f.1).map(|i| format!("L{}", i % 3)).collect();
        let off = r.chance(1, 5);
        let arr = sf(if off { let mut l = labels.clone(); l.push("X".into()); l } else { labels.clone() });
        for api in ["compose_semifinite", "shr<SF>"] {
            let res = if api == "shr<SF>" { call!(ctx, api, input, &lf >> &arr) } else { call!(ctx, api, input, compose_semifinite(&lf, &arr)) };
            if let Some(h) = res {
                ctx.evaluations += 1;
                match (off, h) {
                    (false, Some(h)) => {
                        let want: Vec<String> = f.0.iter().map(|&i| labels[i].clone()).collect();
                        ctx.check(h.0 .0 == want, &format!("{}/pointwise/value/any", api), || json!({"input": input, "observed": h.0 .0}));
                    }
                    (true, None) => {}
                    (o, h) => ctx.violation(&format!("{}/defined-iff-lengths-agree/value/any", api), json!({"input": input, "label_array_too_long": o, "observed_some": h.is_some()})),
                }
            }
        }
        // universal map through a surjection q = f (when f is surjective); a quarter of the cases use a
        // surjection built for the purpose (up to 12 classes, fibres of 1..6 points, shuffled)
        let built: F;
        let (f, lf, n) = if r.chance(1, 4) {
            let k = r.range(1, 12);
            let mut t: Vec<usize> = (0..k).collect();
            for c in 0..k {
                for _ in 0..r.below(6) {
                    t.push(c);
                }
            }
            r.shuffle(&mut t);
            ctx.class("universal_through_built_surjection");
            built = (t, k);
            (&built, ff(built.0.clone(), built.1), built.0.len())
        } else {
            (f, lf, n)
        };
        let surj = (0..f.1).all(|c| f.0.contains(&c));
        if surj {
            let u: Vec<usize> = if r.chance(1, 2) {
                // constant on fibres by construction
                let per: Vec<usize> = r.vec_below(f.1, 3);
                f.0.iter().map(|&c| per[c]).collect()
            } else {
                r.vec_below(n, 2)
            };
            let ulen_off = r.chance(1, 8);
            let u: Vec<usize> = if ulen_off { let mut x = u.clone(); x.push(0); x } else { u };
            let input = json!({"q": fj(f), "u": u});
            // exists iff u constant on every fibre (and lengths agree)
            let mut img: Vec<Option<usize>> = vec![None; f.1];
            let mut constant = u.len() == n;
            if constant {
                for (i, &c) in f.0.iter().enumerate() {
                    match img[c] {
                        None => img[c] = Some(u[i]),
                        Some(x) => {
                            if x != u[i] {
                                constant = false;
                            }
                        }
                    }
                }
            }
            ctx.class(if constant { "universal_exists" } else { if u.len() != n { "universal_length_mismatch" } else { "universal_fibre_conflict" } });
            let ul: Vec<String> = u.iter().map(|x| format!("u{}", x)).collect();
            if let Some(v) = call!(ctx, "coequalizer_universal<T>", input, coequalizer_universal::<VecKind, String>(&lf, &VecArray(ul.clone()))) {
                ctx.evaluations += 1;
                match (constant, v) {
                    (true, Some(v)) => {
                        let back: Vec<String> = f.0.iter().map(|&c| v.0.get(c).cloned().unwrap_or_default()).collect();
                        ctx.check(v.0.len() == f.1 && back == ul, "coequalizer_universal<T>/q;v=u/value/any", || json!({"input": input, "observed": v.0}));
                    }
                    (false, None) => {}
                    (c, v) => ctx.violation("coequalizer_universal<T>/exists-iff-constant-on-fibres/value/any", json!({"input": input, "expected_some": c, "observed_some": v.is_some()})),
                }
            }
            let ut = u.iter().cloned().max().map(|m| m + 1).unwrap_or(0) + r.below(2);
            if let Some(v) = call!(ctx, "coequalizer_universal", input, lf.coequalizer_universal(&ff(u.clone(), ut))) {
                ctx.evaluations += 1;
                match (constant, v) {
                    (true, Some(v)) => {
                        let back: Vec<usize> = f.0.iter().map(|&c| v.table.0.get(c).cloned().unwrap_or(usize::MAX)).collect();
                        ctx.check(v.table.0.len() == f.1 && v.target == ut && back == u, "coequalizer_universal/q;v=u/value/any", || json!({"input": input, "observed": v.table.0}));
                    }
                    (false, None) => {}
                    (c, v) => ctx.violation("coequalizer_universal/exists-iff-constant-on-fibres/value/any", json!({"input": input, "expected_some": c, "observed_some": v.is_some()})),
                }
            }
        }
        // block-wise injections: self = sizes s : N -> K, a : A -> N
        let sizes = &f.0;
        let alen = r.small(5);
        let at = if r.chance(5, 6) { n } else { n + 1 };
        let amap: Vec<usize> = if at == 0 { vec![] } else { r.vec_below(alen, at) };
        let input = json!({"sizes": sizes, "a": amap, "a_target": at});
        if sizes.contains(&0) {
            ctx.class("injections_block_of_size_0");
        }
        {
            let mut d = amap.clone();
            d.sort();
            d.dedup();
            if d.len() < amap.len() {
                ctx.class("injections_non_injective_index_map");
            }
        }
        // the size map's codomain must exceed every size; use max+1
        let sz = ff(sizes.clone(), sizes.iter().cloned().max().map(|m| m + 1).unwrap_or(1));
        if at != n {
            // an index map whose codomain is not the number of blocks is outside the statement: outcome recorded only
            let o = guard(|| sz.injections(&ff(amap.clone(), at)).is_some());
            ctx.count(match o { Ok(true) => "unjudged:mistyped_injections_Some", Ok(false) => "unjudged:mistyped_injections_None", Err(_) => "unjudged:mistyped_injections_panic" });
        } else if let Some(h) = call!(ctx, "injections", input, sz.injections(&ff(amap.clone(), at))) {
            ctx.evaluations += 1;
            match (at == n, h) {
                (true, Some(h)) => {
                    let mut offs = vec![0usize];
                    for &k in sizes.iter() {
                        offs.push(offs.last().unwrap() + k);
                    }
                    let want: Vec<usize> = amap.iter().flat_map(|&x| (0..sizes[x]).map(move |j| (x, j))).map(|(x, j)| offs[x] + j).collect();
                    eq(ctx, "injections", "coproduct-of-injections", &h, &(want, *offs.last().unwrap()), &input);
                }
                (false, None) => {}
                (c, h) => ctx.violation("injections/defined-iff-typed/value/any", json!({"input": input, "expected_some": c, "observed_some": h.is_some()})),
            }
        }
        ctx.sample("single", || input.clone());
    }

    fn constructors(&self, ctx: &mut Ctx, r: &mut Rng) {
        // FiniteFunction::new at the boundary max = target-1, target, target+1
        let n = r.small(5);
        let target = r.small(5);
        let mut table = if target == 0 { vec![] } else { r.vec_below(n, target) };
        let mode = r.below(4);
        if !table.is_empty() {
            let k = r.below(table.len());
            match mode {
                0 => table[k] = target - 1,
                1 => table[k] = target,
                2 => table[k] = target + 1,
                _ => {}
            }
        } else if mode == 1 && n > 0 {
            table = vec![target; n]; // target 0, non-empty table
        }
        let input = json!({"table": table, "target": target});
        let want = table.iter().all(|&x| x < target);
        ctx.class(if want { "new_accept" } else { "new_reject" });
        ctx.nontrivial(&("new", &table, target));
        if let Some(o) = call!(ctx, "new", input, FiniteFunction::<VecKind>::new(VecArray(table.clone()), target)) {
            ctx.check(o.is_some() == want, "new/accepts-iff-table-in-range/value/any", || json!({"input": input, "observed_some": o.is_some(), "expected_some": want}));
            if let Some(h) = o {
                eq(ctx, "new", "keeps-data", &h, &(table.clone(), target), &input);
            }
        }
        // the structural maps
        let (a, b, x) = (r.small(5), r.small(5), r.small(4));
        let input = json!({"a": a, "b": b, "x": x});
        if let Some(h) = call!(ctx, "identity", input, FF::identity(a)) {
            eq(ctx, "identity", "identity", &h, &((0..a).collect(), a), &input);
        }
        if let Some(h) = call!(ctx, "terminal", input, FF::terminal(a)) {
            eq(ctx, "terminal", "a->1", &h, &(vec![0; a], 1), &input);
        }
        if let Some(h) = call!(ctx, "constant", input, FF::constant(a, x, b)) {
            eq(ctx, "constant", "constant-x", &h, &(vec![x; a], x + b + 1), &input);
        }
        if let Some(h) = call!(ctx, "initial", input, FF::initial(a)) {
            eq(ctx, "initial", "0->a", &h, &(vec![], a), &input);
        }
        ctx.check(FF::initial_object() == 0 && <FF as Monoidal>::unit() == 0, "initial_object,unit/zero/value/any", || json!({}));
        if let Some(h) = call!(ctx, "inj0", input, FF::inj0(a, b)) {
            eq(ctx, "inj0", "left-injection", &h, &((0..a).collect(), a + b), &input);
        }
        if let Some(h) = call!(ctx, "inj1", input, FF::inj1(a, b)) {
            eq(ctx, "inj1", "right-injection", &h, &((a..a + b).collect(), a + b), &input);
        }
        if let Some(h) = call!(ctx, "twist", input, <FF as SymmetricMonoidal>::twist(a, b)) {
            let mut t: Vec<usize> = (b..a + b).collect();
            t.extend(0..b);
            eq(ctx, "twist", "symmetry", &h, &(t, a + b), &input);
        }
        if let Some(h) = call!(ctx, "transpose", input, FF::transpose(a, b)) {
            let want: Vec<usize> = (0..a * b).map(|i| (i % a) * b + i / a).collect();
            eq(ctx, "transpose", "row-major-transposition", &h, &(want, a * b), &input);
        }
        // semifinite functions
        let v: Vec<String> = (0..a).map(|i| format!("s{}", i)).collect();
        let w: Vec<String> = (0..b).map(|i| format!("t{}", i)).collect();
        let (sv, sw) = (sf(v.clone()), sf(w.clone()));
        let mut vw = v.clone();
        vw.extend(w.iter().cloned());
        if let Some(c) = call!(ctx, "SemifiniteFunction::coproduct", input, sv.coproduct(&sw)) {
            ctx.check(c.0 .0 == vw && sv.len() == a, "SemifiniteFunction::coproduct/concatenation/value/any", || json!({"input": input}));
        }
        if let Some(c) = call!(ctx, "SemifiniteFunction::add", input, ((&sv + &sw), sv.clone() + sw.clone())) {
            ctx.check(c.0.map(|x| x.0 .0) == Some(vw.clone()) && c.1 .0 .0 == vw, "SemifiniteFunction::add/concatenation/value/any", || json!({"input": input}));
        }
        if let Some(c) = call!(ctx, "SemifiniteFunction::singleton", input, (SF::<String>::singleton("z".into()), SF::<String>::new(VecArray(v.clone())), <SF<String> as num_traits::Zero>::zero())) {
            ctx.check(c.0 .0 .0 == vec!["z".to_string()] && c.1 .0 .0 == v && c.2 .0 .0.is_empty(), "SemifiniteFunction::singleton,new,zero/value/any", || json!({"input": input}));
        }
        // semifinite arrows
        type SA = SemifiniteArrow<VecKind, String>;
        let f = gen_f(r, 4, 4);
        let g = gen_f(r, 4, 4);
        let input = json!({"f": fj(&f), "g": fj(&g), "labels": w.len()});
        let (af, ag): (SA, SA) = (ff(f.0.clone(), f.1).into(), ff(g.0.clone(), g.1).into());
        let asf: SA = sf(w.clone()).into();
        let res = call!(ctx, "SemifiniteArrow", input, {
            let src_ok = af.source() == SemifiniteObject::Finite(f.0.len()) && af.target() == SemifiniteObject::Finite(f.1);
            let s_ok = asf.source() == SemifiniteObject::Finite(w.len()) && matches!(asf.target(), SemifiniteObject::Set(_));
            let c1 = af.compose(&ag);
            let c2 = af.compose(&asf);
            let c3 = asf.compose(&af);
            let idf = SA::identity(SemifiniteObject::Finite(3));
            // the identity on the (non-finite) set of labels: only a right unit for typing, never composable
            let ids = SA::identity(SemifiniteObject::Set(std::marker::PhantomData));
            let ids_ok = matches!(ids, SemifiniteArrow::Identity)
                && matches!(ids.source(), SemifiniteObject::Set(_))
                && matches!(ids.target(), SemifiniteObject::Set(_))
                && af.compose(&ids).is_none()
                && ids.compose(&af).is_none()
                && ids.compose(&asf).is_none();
            let back: Result<SemifiniteFunction<VecKind, String>, ()> = SemifiniteFunction::try_from(SA::from(sf(w.clone())));
            let back_fin: Result<SemifiniteFunction<VecKind, String>, ()> = SemifiniteFunction::try_from(SA::from(ff(f.0.clone(), f.1)));
            let try_ok = matches!(&back, Ok(x) if x.0 .0 == w) && back_fin.is_err();
            let init_ok = <SA as open_hypergraphs::category::Coproduct>::initial_object() == SemifiniteObject::Finite(0);
            // pre-composition with label arrays of a zero-sized type, also the empty one (0 -> 0)
            let unit_ok = {
                let e0: Option<SemifiniteFunction<VecKind, ()>> = compose_semifinite(&ff(vec![], 0), &sf(Vec::<()>::new()));
                let e1: Option<SemifiniteFunction<VecKind, ()>> = compose_semifinite(&ff(f.0.clone(), f.1), &sf(vec![(); f.1]));
                let e2: Option<SemifiniteFunction<VecKind, ()>> = compose_semifinite(&ff(f.0.clone(), f.1), &sf(vec![(); f.1 + 1]));
                matches!(&e0, Some(x) if x.0 .0.is_empty()) && matches!(&e1, Some(x) if x.0 .0.len() == f.0.len()) && e2.is_none()
            };
            // equality of finite functions compares table and codomain; of label arrays the elements
            let eq_ok = (ff(f.0.clone(), f.1) == ff(f.0.clone(), f.1))
                && (ff(f.0.clone(), f.1) != ff(f.0.clone(), f.1 + 1))
                && (ff(vec![], 2) != ff(vec![], 3))
                && (g.0 == f.0 && g.1 == f.1) == (ff(f.0.clone(), f.1) == ff(g.0.clone(), g.1))
                && (sf(w.clone()) == sf(w.clone()))
                && { let mut w2 = w.clone(); w2.push("extra".into()); sf(w.clone()) != sf(w2) };
            // (the representation of the identity on the label set, TryFrom and initial_object are not part of
            // the statement: recorded as an observation)
            OBS_SEMIFINITE_EXTRAS.with(|c| c.set(ids_ok && try_ok && init_ok));
            (src_ok && eq_ok && unit_ok, s_ok, c1, c2, c3, idf)
        });
        if res.is_some() {
            ctx.count(if OBS_SEMIFINITE_EXTRAS.with(|c| c.get()) { "observed:semifinite_identity_tryfrom_initial_as_today" } else { "observed:semifinite_identity_tryfrom_initial_differ" });
        }
        if let Some((src_ok, s_ok, c1, c2, c3, idf)) = res {
            ctx.check(src_ok && s_ok, "SemifiniteArrow/source,target/value/any", || json!({"input": input}));
            let want1 = if f.1 == g.0.len() { Some((f.0.iter().map(|&i| g.0[i]).collect::<Vec<_>>(), g.1)) } else { None };
            let got1 = match &c1 { Some(SemifiniteArrow::Finite(h)) => Some((h.table.0.clone(), h.target)), _ => None };
            ctx.check(got1 == want1 && c1.is_some() == want1.is_some(), "SemifiniteArrow/compose-finite/value/any", || json!({"input": input}));
            let want2 = if f.1 == w.len() { Some(f.0.iter().map(|&i| w[i].clone()).collect::<Vec<_>>()) } else { None };
            let got2 = match &c2 { Some(SemifiniteArrow::Semifinite(h)) => Some(h.0 .0.clone()), _ => None };
            ctx.check(got2 == want2 && c2.is_some() == want2.is_some(), "SemifiniteArrow/compose-semifinite/value/any", || json!({"input": input}));
            ctx.check(c3.is_none(), "SemifiniteArrow/left-operand-must-be-finite/value/any", || json!({"input": input}));
            ctx.check(matches!(&idf, SemifiniteArrow::Finite(h) if h.table.0 == vec![0, 1, 2] && h.target == 3), "SemifiniteArrow/identity/value/any", || json!({"input": input}));
        }
        ctx.sample("constructors", || input.clone());
    }
}

impl Monitor for C06 {
    fn id(&self) -> &'static str {
        "C06"
    }
    fn rule(&self) -> &'static str {
        "cases: exhaustively every ordered pair of functions with source <=3 and target <=3 (60 functions, 3600 pairs: compose, >>, coproduct, +, tensor, |, coequalizer, each with its \
         definedness condition) and every single such function, then seeded functions up to 8 -> 8 (40 -> 40 and 10^4-element chains in the thorough tier): is_injective, inject0/1, \
         to_initial, cumulative_sum, identity laws, pre-composition with label arrays (length off by one => None), universal map through a surjection q for label arrays that are / are not \
         constant on the fibres and of wrong length (Some iff constant, q;v = u, never a panic), block-wise injections with size-0 blocks, non-injective and mistyped index maps, \
         FiniteFunction::new at max = target-1 / target / target+1, the structural maps (identity, terminal, constant, initial, inj0, inj1, twist, transpose), SemifiniteFunction and \
         SemifiniteArrow. Coequalizer oracle: surjective onto 0..k, q(f(i)) = q(g(i)), and partition equal to the flood-fill components of {f(i)-g(i)}. non-trivial = non-empty table or an \
         Option decision; distinct = hash of the inputs. Also: SemifiniteArrow identities on the label set (never composable), TryFrom, initial_object, equality of finite functions (table and codomain) and of label arrays; a quarter of the universal-map cases go through a surjection built for the purpose (up to 12 classes, fibres of 1-6). Round 8: one class of 65-400 points given as a chain in a hostile order (from the far end backwards, forwards, shuffled, randomly oriented; optionally one outsider point joined to an end or the middle by the last pair); call histories: a coequalizer, exactly 2^8-1 or 2^16-1 unrelated tiny coequalizer calls on the same thread, then a different coequalizer over the same points and the first one again."
    }
    fn corpus_len(&self) -> u64 {
        let n = small_functions().len() as u64;
        n * n + n + 6
    }
    fn floors(&self) -> Vec<(&'static str, u64)> {
        vec![
            ("class:exhaustive_pair", 3600),
            ("class:exhaustive_single", 60),
            ("class:empty_domain", 50),
            ("class:empty_codomain", 10),
            ("class:non_injective", 50),
            ("class:universal_exists", 50),
            ("class:universal_fibre_conflict", 50),
            ("class:universal_length_mismatch", 10),
            ("class:chain_of_identifications", 100),
            ("class:injections_block_of_size_0", 50),
            ("class:injections_non_injective_index_map", 50),
            ("class:new_accept", 50),
            ("class:new_reject", 50),
            ("class:sizes_up_to_40", 200),
            ("class:tables_of_more_than_256_entries", 100),
            ("class:sparse_identifications_over_a_large_codomain", 50),
            ("class:tournament_coequalizer", 30),
            ("class:chain_in_hostile_order", 50),
            ("class:call_counter_wrap_256", 20),
            ("class:call_counter_wrap_65536", 3),
            ("class:long_identification_chain_on_a_thread_stack", 6),
            ("outcome:compose_Some", 100),
            ("outcome:compose_None", 100),
            ("outcome:coequalizer_Some", 100),
            ("outcome:coequalizer_None", 100),
            ("api:transpose", 50),
            ("api:injections", 100),
            ("api:SemifiniteArrow", 50),
        ]
    }
    fn run_case(&self, idx: u64, r: &mut Rng, ctx: &mut Ctx) {
        let fs = small_functions();
        let n = fs.len() as u64;
        if idx < n * n {
            ctx.class("exhaustive_pair");
            self.pair(ctx, &fs[(idx / n) as usize], &fs[(idx % n) as usize]);
            if idx % 400 == 0 {
                ctx.sample("exhaustive_pair", || json!({"f": fj(&fs[(idx / n) as usize]), "g": fj(&fs[(idx % n) as usize])}));
            }
            return;
        }
        if idx < n * n + n {
            ctx.class("exhaustive_single");
            self.single(ctx, &fs[(idx - n * n) as usize], r);
            return;
        }
        if idx < n * n + n + 6 {
            // long chains and stars of identifications in every orientation, on a thread with the default 2 MiB
            // stack (an implementation whose merge trees degenerate into paths recurses 4*10^5 deep)
            let m = if cfg!(miri) { 200usize } else { 400_000usize };
            let shape = (idx - n * n - n) as usize;
            let (a, b): (Vec<usize>, Vec<usize>) = match shape {
                0 => ((0..m - 1).map(|i| i + 1).collect(), (0..m - 1).collect()),
                1 => ((0..m - 1).collect(), (0..m - 1).map(|i| i + 1).collect()),
                2 => ((0..m - 1).rev().map(|i| i + 1).collect(), (0..m - 1).rev().collect()),
                3 => ((0..m - 1).rev().collect(), (0..m - 1).rev().map(|i| i + 1).collect()),
                4 => ((0..m - 1).collect(), vec![m - 1; m - 1]),
                _ => (vec![m - 1; m - 1], (0..m - 1).collect()),
            };
            ctx.class("long_identification_chain_on_a_thread_stack");
            let (fa, fb) = (ff(a, m), ff(b, m));
            let res = on_thread_stack(|| fa.coequalizer(&fb));
            let input = json!({"points": m, "shape": shape});
            if let Some(q) = must_return(ctx, "coequalizer", "long_chain", res, || input.clone()) {
                ctx.check(matches!(&q, Some(q) if q.target == 1 && q.table.0.len() == m && q.table.0.iter().all(|&c| c == 0)), "coequalizer/partition-is-generated-equivalence/value/long_chain", || {
                    json!({"input": input, "observed_classes": q.as_ref().map(|q| q.target)})
                });
            }
            ctx.nontrivial(&("long_chain", shape));
            return;
        }
        match r.below(8) {
            0..=2 => {
                let big = r.chance(1, 10);
                let (ms, mt) = if big { (40, 40) } else { (8, 8) };
                let f = gen_f(r, ms, mt);
                // bias towards composable / parallel partners
                let g = match r.below(4) {
                    0 => {
                        // composable: source of g = target of f
                        let t = if f.1 > 0 { r.range(1, mt.max(1)) } else { r.small(mt) };
                        (r.vec_below(f.1, t.max(1)), t)
                    }
                    1 => (r.vec_below(f.0.len(), f.1.max(1)), f.1), // parallel
                    _ => gen_f(r, ms, mt),
                };
                self.pair(ctx, &f, &g);
            }
            3..=5 => {
                // (table, target); one case in eight has sizes / values up to 40 (blocks longer than 16)
                let f = if r.chance(1, 300) {
                    // tables of several hundred to more than a thousand entries (block-wise implementations)
                    ctx.class("tables_of_more_than_256_entries");
                    let n = r.range(257, 1300);
                    let t = if r.chance(1, 2) { r.range(n, n + 40) } else { r.range(1, 40) };
                    let mut table = if t >= n && r.chance(1, 2) { r.perm(t)[..n].to_vec() } else { r.vec_below(n, t) };
                    if t >= n && r.chance(1, 2) {
                        // injective except for one collision between the last entry and an early one
                        let k = r.below(n / 2);
                        table[n - 1] = table[k];
                    }
                    (table, t)
                } else if r.chance(1, 8) { ctx.class("sizes_up_to_40"); gen_f(r, 8, 40) } else { gen_f(r, 8, 6) };
                self.single(ctx, &f, r);
            }
            6 => self.constructors(ctx, r),
            _ => {
                if r.chance(1, 300) {
                    // few identifications over a codomain of more than a thousand points
                    let b = r.range(1024, 3000);
                    let k = r.range(1, b / 8);
                    let f: F = (r.vec_below(k, b), b);
                    let g: F = (r.vec_below(k, b), b);
                    ctx.class("sparse_identifications_over_a_large_codomain");
                    self.pair(ctx, &f, &g);
                } else if r.chance(1, 200) {
                    // one class of 65-400 points given as a chain in a hostile order: links listed from the far end
                    // backwards (k, k-1), forwards, or shuffled, each randomly oriented, closed by a pair joining the two
                    // ends -- orders in which a union-find without balancing builds a path, not a bush
                    let n = r.range(65, 400);
                    // (half of the time one point stays outside the chain and is joined to one of its ends, its
                    // middle or nothing by the last pair)
                    let outsider = if r.chance(1, 2) { Some(*r.pick(&[0usize, n - 1, n / 2])) } else { None };
                    let pts: Vec<usize> = (0..n).filter(|&p| Some(p) != outsider).collect();
                    let mut pairs: Vec<(usize, usize)> = (1..pts.len()).map(|k| (pts[k], pts[k - 1])).collect();
                    match r.below(4) {
                        0 => pairs.reverse(),
                        1 => {}
                        2 => r.shuffle(&mut pairs),
                        _ => { pairs.reverse(); for p in pairs.iter_mut() { *p = (p.1, p.0); } }
                    }
                    if r.chance(1, 3) { for p in pairs.iter_mut() { if r.chance(1, 2) { *p = (p.1, p.0); } } }
                    match outsider {
                        Some(o) => {
                            if r.chance(4, 5) {
                                let at = *r.pick(&[pts[0], pts[pts.len() - 1], pts[pts.len() / 2]]);
                                pairs.push(if r.chance(1, 2) { (at, o) } else { (o, at) });
                            }
                        }
                        None => { if r.chance(2, 3) { pairs.push((n - 1, 0)); } }
                    }
                    let extra = r.below(4);
                    let f: F = (pairs.iter().map(|p| p.0).collect(), n + extra);
                    let g: F = (pairs.iter().map(|p| p.1).collect(), n + extra);
                    ctx.class("chain_in_hostile_order");
                    self.pair(ctx, &f, &g);
                } else if r.chance(1, 400) {
                    self.call_counter_wrap(ctx, r);
                } else if r.chance(1, 500) {
                    // deep identification trees: 2^k points merged in tournament order
                    let k = 9 + r.below(3) as u32;
                    let (n, pairs) = crate::gen::tournament_pairs(r, k);
                    let f: F = (pairs.iter().map(|p| p.0).collect(), n);
                    let g: F = (pairs.iter().map(|p| p.1).collect(), n);
                    ctx.class("tournament_coequalizer");
                    self.pair(ctx, &f, &g);
                } else if ctx.thorough && r.chance(1, 500) {
                    // long chain of identifications: coequalizer of i |-> i and i |-> i+1 on 10^4 points
                    let n = 10_000;
                    let f: F = ((0..n - 1).collect(), n);
                    let g: F = ((1..n).collect(), n);
                    ctx.class("stress_chain_coequalizer");
                    self.pair(ctx, &f, &g);
                } else {
                    self.constructors(ctx, r);
                }
            }
        }
    }
}
