//! C17 Acyclicity, monogamy and degree queries decide their definitions, totally.

use super::common::*;
use crate::conv::*;
use crate::ctx::*;
use crate::gen::{self, OhParams, P};
use crate::model::*;
use crate::rng::Rng;
use serde_json::json;

pub struct C17;

/// built once per process
fn corpus() -> &'static Vec<(&'static str, P)> {
    static C: std::sync::OnceLock<Vec<(&'static str, P)>> = std::sync::OnceLock::new();
    C.get_or_init(corpus_build)
}

fn corpus_build() -> Vec<(&'static str, P)> {
    let e = |l: u64, s: &[usize], t: &[usize]| PEdge { l, s: s.to_vec(), t: t.to_vec() };
    let mut v = gen::corpus_shapes();
    v.push(("isolated_node_off_interface", POh { w: vec![0, 0], e: vec![], s: vec![0], t: vec![0] }));
    v.push(("dangling_node", POh { w: vec![0, 0, 0], e: vec![e(0, &[0], &[1, 2])], s: vec![0], t: vec![1] }));
    v.push(("monogamous_identity", POh::identity(vec![0, 1, 0])));
    v.push(("monogamous_chain", POh { w: vec![0, 0, 0], e: vec![e(0, &[0], &[1]), e(1, &[1], &[2])], s: vec![0], t: vec![2] }));
    v.push(("non_injective_interface", POh { w: vec![0], e: vec![], s: vec![0, 0], t: vec![0] }));
    v.push(("interface_node_with_indegree", POh { w: vec![0, 0], e: vec![e(0, &[0], &[0])], s: vec![0], t: vec![0] }));
    v.push(("many_parallel", POh { w: vec![0, 0], e: vec![e(0, &[0, 0, 0, 0], &[1, 1, 1, 1]); 4], s: vec![0], t: vec![1] }));
    // node-level graphs of some size: a path of 3000 operations (acyclic and monogamous), the same path
    // closed by one back reference, one 64 -> 64 operation, and one operation joining two nodes 64 x 64 times
    v.push(("long_path", super::c15::chain(3_000, 3)));
    {
        let mut p = super::c15::chain(3_000, 5);
        let last = p.w.len() - 1;
        p.e[0].s.push(last);
        v.push(("long_path_closed", p));
    }
    v.push(("one_wide_operation", POh { w: vec![0; 128], e: vec![e(0, &(0..64).collect::<Vec<_>>(), &(64..128).collect::<Vec<_>>())], s: (0..64).collect(), t: (64..128).collect() }));
    v.push(("multiplicity_64x64", POh { w: vec![0, 0], e: vec![e(0, &[0; 64], &[1; 64])], s: vec![0], t: vec![1] }));
    v
}

impl C17 {
    fn judge(&self, ctx: &mut Ctx, class: &str, p: &P) {
        self.judge_on(ctx, class, p, to_strict(p))
    }

    fn judge_on(&self, ctx: &mut Ctx, class: &str, p: &P, lf: SOh<u32, u64>) {
        let input = || json!({"f": show(p)});
        let n = p.w.len();
        if n >= 1 {
            ctx.nontrivial(p);
        }
        let nsucc = node_succs(p);
        let want_acyclic = acyclic(&nsucc);
        let want_mono = monogamous(p);
        // shape classes observed (by the model)
        let touched: Vec<bool> = (0..n)
            .map(|v| p.e.iter().any(|e| e.s.contains(&v) || e.t.contains(&v)))
            .collect();
        if (0..n).any(|v| !touched[v] && !p.s.contains(&v) && !p.t.contains(&v)) {
            ctx.class("has_isolated_off_interface_node");
        }
        if (0..n).any(|v| !touched[v] && !(p.s.contains(&v) && p.t.contains(&v))) {
            ctx.class("has_node_with_degree_plus_interface_zero");
        }
        let maxdeg = (0..n).map(|v| in_degree(p, v).max(out_degree(p, v))).max().unwrap_or(0);
        if maxdeg >= 3 {
            ctx.class("degree_ge3");
        }
        if maxdeg > n {
            ctx.class("degree_gt_node_count");
        }
        let cls = if want_acyclic { "acyclic" } else { "cyclic" };

        // is_acyclic on the open hypergraph and on its hypergraph
        for api in ["OpenHypergraph::is_acyclic", "Hypergraph::is_acyclic"] {
            let r = if api.starts_with("Open") { guard(|| lf.is_acyclic()) } else { guard(|| lf.h.is_acyclic()) };
            if let Some(b) = must_return(ctx, api, cls, r, input) {
                ctx.outcome(if b { "acyclic_true" } else { "acyclic_false" });
                ctx.check(b == want_acyclic, &format!("{}/definition/value/{}", api, cls), || {
                    json!({"input": input(), "observed": b, "expected": want_acyclic})
                });
            }
        }
        // is_monogamous
        let mcls = if want_mono { "monogamous" } else { "not_monogamous" };
        let r = guard(|| lf.is_monogamous());
        if let Some(b) = must_return(ctx, "is_monogamous", mcls, r, input) {
            ctx.outcome(if b { "monogamous_true" } else { "monogamous_false" });
            ctx.check(b == want_mono, &format!("is_monogamous/definition/value/{}", mcls), || {
                json!({"input": input(), "observed": b, "expected": want_mono})
            });
        }
        // degrees for every node
        for v in 0..n {
            let r = guard(|| lf.h.in_degree(v));
            if let Some(d) = must_return(ctx, "in_degree", class, r, input) {
                ctx.check(d == in_degree(p, v), "in_degree/count/value/any", || {
                    json!({"input": input(), "node": v, "observed": d, "expected": in_degree(p, v)})
                });
            }
            let r = guard(|| lf.h.out_degree(v));
            if let Some(d) = must_return(ctx, "out_degree", class, r, input) {
                ctx.check(d == out_degree(p, v), "out_degree/count/value/any", || {
                    json!({"input": input(), "node": v, "observed": d, "expected": out_degree(p, v)})
                });
            }
        }
        ctx.sample(class, || json!({"f": show(p), "acyclic": want_acyclic, "monogamous": want_mono}));
    }
}

impl Monitor for C17 {
    fn id(&self) -> &'static str {
        "C17"
    }
    fn rule(&self) -> &'static str {
        "cases: hostile corpus (isolated node off the interfaces, dangling node, repeated incidences, many parallel connections, self loop, cycle with tail, \
         monogamous identity/chain, non-injective interface) then seeded diagrams: dense <=6 nodes with arity <=4, small free diagrams, monogamous acyclic \
         circuits (so that `true` is observed often), and single perturbations of monogamous circuits. Every call's outcome (value or panic) is recorded per \
         build profile. Oracle: DFS reachability on node-level successor lists; monogamy by counting in-degree + #occurrences in the source interface = 1 \
         (and dually) per node with injective legs; degrees by counting occurrences. non-trivial = >=1 node; distinct = hash of the plain diagram. Also: a path of 3000 operations (open and closed by one back reference), one 64->64 operation, one dependency of multiplicity 64x64."
    }
    fn corpus_len(&self) -> u64 {
        corpus().len() as u64
    }
    fn floors(&self) -> Vec<(&'static str, u64)> {
        vec![
            ("outcome:acyclic_true", 200),
            ("class:diagram_built_by_library_operations", 300),
            ("outcome:acyclic_false", 200),
            ("outcome:monogamous_true", 100),
            ("outcome:monogamous_false", 200),
            ("class:has_isolated_off_interface_node", 20),
            ("class:has_node_with_degree_plus_interface_zero", 20),
            ("class:degree_ge3", 50),
            ("class:degree_gt_node_count", 20),
            ("api:in_degree", 500),
            ("api:out_degree", 500),
        ]
    }
    fn run_case(&self, idx: u64, r: &mut Rng, ctx: &mut Ctx) {
        let c = corpus();
        if (idx as usize) < c.len() {
            let (class, p) = &c[idx as usize];
            ctx.class(class);
            self.judge(ctx, class, p);
            return;
        }
        let p = match r.below(10) {
            0..=2 => gen::oh(r, &OhParams::dense()),
            3..=4 => gen::oh(r, &OhParams::small()),
            5 => gen::oh(r, &OhParams::tiny()),
            6..=7 => gen::monogamous_acyclic(r, 3, 5, &OhParams::small()),
            8 => {
                // single perturbation of a monogamous circuit
                let mut p = gen::monogamous_acyclic(r, 3, 5, &OhParams::small());
                match r.below(5) {
                    0 => p.w.push(0), // isolated node
                    1 => {
                        if !p.s.is_empty() {
                            let k = r.below(p.s.len());
                            p.s.push(p.s[k]);
                        }
                    }
                    2 => {
                        if !p.t.is_empty() {
                            p.t.pop();
                        }
                    }
                    3 => {
                        if !p.e.is_empty() && !p.w.is_empty() {
                            let k = r.below(p.e.len());
                            let v = r.below(p.w.len());
                            p.e[k].s.push(v);
                        }
                    }
                    _ => {
                        if !p.e.is_empty() && !p.w.is_empty() {
                            let k = r.below(p.e.len());
                            let v = r.below(p.w.len());
                            p.e[k].t.push(v);
                        }
                    }
                }
                p
            }
            _ => {
                if ctx.thorough {
                    gen::oh(r, &OhParams { max_nodes: 12, max_edges: 12, max_arity: 3, max_iface: 4, node_labels: 2, edge_labels: 2 })
                } else {
                    gen::oh(r, &OhParams::dense())
                }
            }
        };
        self.judge(ctx, "random", &p);
        if r.chance(1, 6) {
            // the same questions asked of a diagram produced by a pipeline of library operations (whose operands were
            // asked the same questions before)
            let pa = OhParams { max_nodes: 5, max_edges: 4, max_arity: 3, max_iface: 3, node_labels: 2, edge_labels: 3 };
            let (f, g) = gen::composable_pair(r, &pa);
            let h = gen::oh(r, &pa);
            if let Some((x, p, how)) = library_built(r, &f, &g, &h) {
                ctx.class("diagram_built_by_library_operations");
                ctx.count(&format!("pipeline:{}", how));
                self.judge_on(ctx, "library_built", &p, x);
            }
        }
    }
}
