//! C20 Results do not depend on unspecified choices of the array backend.

use super::c18::{convex, failing, Mor};
use super::common::*;
use crate::adv::{self, AdvArray, AdvKind};
use crate::conv::*;
use crate::ctx::*;
use crate::evalx::{gate_apply, Gate};
use crate::functors::*;
use crate::gen::{self, OhParams, P};
use crate::model::*;
use crate::optics::*;
use crate::oracle::*;
use crate::rng::Rng;
use open_hypergraphs::category::{Arrow, Monoidal};
use open_hypergraphs::finite_function::FiniteFunction;
use open_hypergraphs::indexed_coproduct::IndexedCoproduct;
use open_hypergraphs::operations::Operations;
use open_hypergraphs::semifinite::SemifiniteFunction;
use open_hypergraphs::strict::eval::eval;
use open_hypergraphs::strict::functor::optic::Optic;
use open_hypergraphs::strict::functor::{define_map_arrow, Functor};
use open_hypergraphs::strict::hypergraph::arrow::HypergraphArrow;
use open_hypergraphs::strict::hypergraph::Hypergraph;
use open_hypergraphs::strict::layer::{layer, layered_operations};
use open_hypergraphs::strict::open_hypergraph::OpenHypergraph;
use serde_json::{json, Value};
use std::cell::RefCell;

crate::array_contract_checks!(advchk, AdvKind, AdvArray);

pub struct C20;

type AFF = FiniteFunction<AdvKind>;
type ASF<T> = SemifiniteFunction<AdvKind, T>;
type ASeg = IndexedCoproduct<AdvKind, FiniteFunction<AdvKind>>;
type ASegS<T> = IndexedCoproduct<AdvKind, SemifiniteFunction<AdvKind, T>>;
type AOh<O, A> = OpenHypergraph<AdvKind, O, A>;

fn aff(table: Vec<usize>, target: usize) -> AFF {
    FiniteFunction { table: AdvArray(table), target }
}
fn asf<T>(v: Vec<T>) -> ASF<T> {
    SemifiniteFunction(AdvArray(v))
}
fn aseg(lists: &[Vec<usize>], target: usize) -> ASeg {
    let sizes: Vec<usize> = lists.iter().map(|l| l.len()).collect();
    let values: Vec<usize> = lists.iter().flatten().cloned().collect();
    let total = values.len();
    IndexedCoproduct::new(aff(sizes, total + 1), aff(values, target)).expect("harness: adv segmented array")
}
fn asegs<T: Clone>(lists: &[Vec<T>]) -> ASegS<T> {
    let sizes: Vec<usize> = lists.iter().map(|l| l.len()).collect();
    let values: Vec<T> = lists.iter().flatten().cloned().collect();
    let total = values.len();
    IndexedCoproduct::new(aff(sizes, total + 1), asf(values)).expect("harness: adv segmented array")
}
fn asegs_lists<T: Clone>(s: &ASegS<T>) -> Result<Vec<Vec<T>>, String> {
    decode(&s.sources.table.0, s.sources.target, &s.values.0 .0)
}

fn to_adv<O: Clone, A: Clone>(p: &POh<O, A>) -> AOh<O, A> {
    let n = p.w.len();
    let sl: Vec<Vec<usize>> = p.e.iter().map(|e| e.s.clone()).collect();
    let tl: Vec<Vec<usize>> = p.e.iter().map(|e| e.t.clone()).collect();
    OpenHypergraph {
        s: aff(p.s.clone(), n),
        t: aff(p.t.clone(), n),
        h: Hypergraph { s: aseg(&sl, n), t: aseg(&tl, n), w: asf(p.w.clone()), x: asf(p.e.iter().map(|e| e.l.clone()).collect()) },
    }
}

fn from_adv<O: Clone, A: Clone>(f: &AOh<O, A>) -> Result<POh<O, A>, String> {
    let n = f.h.w.0 .0.len();
    let m = f.h.x.0 .0.len();
    let sl = decode(&f.h.s.sources.table.0, f.h.s.sources.target, &f.h.s.values.table.0)?;
    let tl = decode(&f.h.t.sources.table.0, f.h.t.sources.target, &f.h.t.values.table.0)?;
    if sl.len() != m || tl.len() != m {
        return Err("segment count != edge count".into());
    }
    if f.h.s.values.target != n || f.h.t.values.target != n || f.s.target != n || f.t.target != n {
        return Err("codomain != node count".into());
    }
    let all = sl.iter().flatten().chain(tl.iter().flatten()).chain(f.s.table.0.iter()).chain(f.t.table.0.iter());
    if all.clone().any(|&v| v >= n) {
        return Err("node reference out of range".into());
    }
    Ok(POh {
        w: f.h.w.0 .0.clone(),
        e: (0..m).map(|k| PEdge { l: f.h.x.0 .0[k].clone(), s: sl[k].clone(), t: tl[k].clone() }).collect(),
        s: f.s.table.0.clone(),
        t: f.t.table.0.clone(),
    })
}

/// the C12 functor family on the adversarial backend
struct AdvSpecFunctor(FSpec);
impl Functor<AdvKind, u32, u64, u32, u64> for AdvSpecFunctor {
    fn map_object(&self, a: &ASF<u32>) -> ASegS<u32> {
        let lists: Vec<Vec<u32>> = a.0 .0.iter().map(|o| self.0.obj(o)).collect();
        asegs(&lists)
    }
    fn map_operations(&self, ops: Operations<AdvKind, u32, u64>) -> AOh<u32, u64> {
        let (st, tt) = (asegs_lists(&ops.a).expect("ops"), asegs_lists(&ops.b).expect("ops"));
        let mut acc: POh<u32, u64> = POh::empty();
        for (k, l) in ops.x.0 .0.iter().enumerate() {
            acc = acc.tensor(&self.0.op(l, &st[k], &tt[k]));
        }
        to_adv(&acc)
    }
    fn map_arrow(&self, f: &AOh<u32, u64>) -> AOh<u32, u64> {
        define_map_arrow(self, f)
    }
}

/// the C14 optic families on the adversarial backend
struct AdvPart {
    spec: OSpec,
    rev: bool,
}
impl Functor<AdvKind, u32, u64, u32, u64> for AdvPart {
    fn map_object(&self, a: &ASF<u32>) -> ASegS<u32> {
        let lists: Vec<Vec<u32>> = a.0 .0.iter().map(|o| if self.rev { self.spec.robj(o) } else { self.spec.fobj(o) }).collect();
        asegs(&lists)
    }
    fn map_operations(&self, ops: Operations<AdvKind, u32, u64>) -> AOh<u32, u64> {
        let (st, tt) = (asegs_lists(&ops.a).expect("ops"), asegs_lists(&ops.b).expect("ops"));
        let mut acc: PD = POh::empty();
        for (k, l) in ops.x.0 .0.iter().enumerate() {
            acc = acc.tensor(&if self.rev { self.spec.rev(l, &st[k], &tt[k]) } else { self.spec.fwd(l, &st[k], &tt[k]) });
        }
        to_adv(&acc)
    }
    fn map_arrow(&self, f: &AOh<u32, u64>) -> AOh<u32, u64> {
        define_map_arrow(self, f)
    }
}
fn adv_optic(spec: &OSpec) -> Optic<AdvPart, AdvPart, AdvKind, u32, u64, u32, u64> {
    let s2 = spec.clone();
    Optic::new(
        AdvPart { spec: spec.clone(), rev: false },
        AdvPart { spec: spec.clone(), rev: true },
        Box::new(move |ops: &Operations<AdvKind, u32, u64>| {
            let lists: Vec<Vec<u32>> = ops.x.0 .0.iter().map(|l| s2.residual(l)).collect();
            asegs(&lists)
        }),
    )
}

fn adv_eval(f: &AOh<u32, Gate>, inputs: Vec<u64>) -> Result<Option<Vec<u64>>, PanicInfo> {
    let bad: RefCell<bool> = RefCell::new(false);
    let r = guard(|| {
        eval::<AdvKind, u32, Gate, u64>(f, AdvArray(inputs), |ops, args| {
            let segs = asegs_lists(&args).unwrap_or_else(|_| {
                *bad.borrow_mut() = true;
                vec![vec![]; ops.0 .0.len()]
            });
            let outs: Vec<Vec<u64>> = ops.0 .0.iter().enumerate().map(|(k, l)| gate_apply(l, segs.get(k).map(|v| v.as_slice()).unwrap_or(&[]))).collect();
            asegs(&outs)
        })
        .map(|v| v.0)
    });
    if *bad.borrow() {
        // an ill-formed argument batch handed to the interpreter: reported as a failed call
        return Err(PanicInfo { msg: "eval handed the interpreter an ill-formed argument segmentation".into(), file: "/repo/src/strict/eval.rs".into(), line: 0 });
    }
    r
}

impl C20 {
    /// soundness guard: the adversarial backend must itself satisfy the array contract
    fn guard_backend(&self, ctx: &mut Ctx, r: &mut Rng) {
        let mut tmp = Ctx::new("C20-guard", &ctx.profile, ctx.seed, ctx.thorough);
        adv::set_seed(r.next());
        for _ in 0..4 {
            advchk::random(&mut tmp, r, "adv:");
        }
        let v: Vec<usize> = { let k = r.small(5); r.vec_below(k, 4) };
        advchk::unary(&mut tmp, &v, "adv:");
        ctx.count_n("guard:backend_contract_checks", tmp.evaluations);
        if !tmp.viol_sigs.is_empty() {
            ctx.inconclusive(&format!("adversarial backend broke the array contract: {:?}", tmp.viol_sigs.keys().collect::<Vec<_>>()));
        }
    }

    fn categorical(&self, ctx: &mut Ctx, r: &mut Rng, sigma: u64) {
        let pa = if r.chance(1, 2) { OhParams::small() } else { OhParams::dense() };
        let (mut f, mut g) = gen::composable_pair(r, &pa);
        if r.chance(1, 2) {
            gen::uniquify_edge_labels(&mut f);
            for (k, e) in g.e.iter_mut().enumerate() {
                e.l = 2000 + k as u64;
            }
        }
        let input = || json!({"sigma": sigma, "f": show(&f), "g": show(&g)});
        ctx.nontrivial(&("cat", sigma, &f, &g));
        adv::set_seed(sigma);
        let (af, ag) = (to_adv(&f), to_adv(&g));
        let (vf, vg) = (to_strict(&f), to_strict(&g));
        // compose
        let a = lib(ctx, "adv::compose", "any", &input, || af.compose(&ag)).flatten();
        let v = lib(ctx, "vec::compose", "any", &input, || vf.compose(&vg)).flatten();
        ctx.count("op:compose");
        match (a, v) {
            (Some(a), Some(v)) => match (from_adv(&a), from_strict(&v)) {
                (Ok(pa), Ok(pv)) => {
                    let ty = pa.src_type() == pv.src_type() && pa.tgt_type() == pv.tgt_type();
                    if ctx.check(ty, "compose/same-type-across-backends/value/any", || json!({"input": input(), "adv": show(&pa), "vec": show(&pv)})) {
                        expect_iso(ctx, "compose", "isomorphic-across-backends", "any", &pa, &pv, &input);
                        if let Some(m) = f.compose(&g) {
                            expect_iso(ctx, "adv::compose", "pushout", "any", &pa, &m, &input);
                        }
                    }
                }
                (ea, _) => {
                    ctx.check(ea.is_ok(), "adv::compose/well-formed/value/any", || json!({"input": input(), "observed": format!("{:?}", ea.err())}));
                }
            },
            (a, v) => {
                ctx.check(false, "compose/defined-on-both-backends/value/any", || json!({"input": input(), "adv_some": a.is_some(), "vec_some": v.is_some()}));
            }
        }
        // mismatching boundary: refused on both backends (the comparison of the boundary types goes through
        // the backend's own equality)
        if r.chance(1, 5) && !g.s.is_empty() {
            let mut g2 = g.clone();
            let k = r.below(g2.s.len());
            g2.w.push(g2.w[g2.s[k]] + 1);
            g2.s[k] = g2.w.len() - 1;
            let (ag2, vg2) = (to_adv(&g2), to_strict(&g2));
            let inp = || json!({"sigma": sigma, "f": show(&f), "g": show(&g2)});
            let a = lib(ctx, "adv::compose", "types_differ", &inp, || af.compose(&ag2).is_some());
            let v = lib(ctx, "vec::compose", "types_differ", &inp, || vf.compose(&vg2).is_some());
            ctx.count("op:compose_refusal");
            ctx.check(a == Some(false) && v == Some(false), "compose/refuses-mismatching-boundary-on-both-backends/value/any", || json!({"input": inp(), "adv_some": a, "vec_some": v}));
        }
        // the library's identity functor at the adversarial backend
        if let Some(a) = lib(ctx, "adv::Identity::map_arrow", "any", &input, || open_hypergraphs::strict::functor::identity::Identity.map_arrow(&af)) {
            ctx.count("op:identity_functor");
            match from_adv(&a) {
                Ok(pa) => {
                    if ctx.check(pa.src_type() == f.src_type() && pa.tgt_type() == f.tgt_type(), "adv::Identity::map_arrow/type/value/any", || json!({"input": input(), "observed": show(&pa)})) {
                        expect_iso(ctx, "adv::Identity::map_arrow", "isomorphic-to-argument", "any", &pa, &f, &input);
                    }
                }
                Err(e) => {
                    ctx.check(false, "adv::Identity::map_arrow/well-formed/value/any", || json!({"input": input(), "observed": e}));
                }
            }
        }
        // tensor: no open choice is involved, data must be identical
        let a = lib(ctx, "adv::tensor", "any", &input, || af.tensor(&ag));
        ctx.count("op:tensor");
        if let Some(a) = a {
            match from_adv(&a) {
                Ok(pa) => {
                    let want = f.tensor(&g);
                    if ctx.check(pa.src_type() == want.src_type() && pa.tgt_type() == want.tgt_type(), "adv::tensor/type/value/any", || json!({"input": input(), "observed": show(&pa)})) {
                        expect_iso(ctx, "adv::tensor", "juxtaposition", "any", &pa, &want, &input);
                    }
                }
                Err(e) => {
                    ctx.check(false, "adv::tensor/well-formed/value/any", || json!({"input": input(), "observed": e}));
                }
            }
        }
        // functor
        let spec = FSpec::random(r);
        let input2 = || json!({"sigma": sigma, "functor": format!("{:?}", spec), "f": show(&f)});
        if f.w.len() <= 6 && f.e.len() <= 4 {
            let a = lib(ctx, "adv::Functor::map_arrow", "any", &input2, || AdvSpecFunctor(spec.clone()).map_arrow(&af));
            if let (Some(a), Ok(want)) = (a, spec.apply(&f)) {
                ctx.count("op:functor");
                match from_adv(&a) {
                    Ok(pa) => {
                        let ty = pa.src_type() == want.result.src_type() && pa.tgt_type() == want.result.tgt_type();
                        if ctx.check(ty, "adv::Functor::map_arrow/type/value/any", || json!({"input": input2(), "observed": show(&pa)})) {
                            expect_iso(ctx, "adv::Functor::map_arrow", "generator-wise-substitution", "any", &pa, &want.result, &input2);
                        }
                    }
                    Err(e) => {
                        ctx.check(false, "adv::Functor::map_arrow/well-formed/value/any", || json!({"input": input2(), "observed": e}));
                    }
                }
            }
        }
        ctx.sample("categorical", || input());
    }

    fn optic(&self, ctx: &mut Ctx, r: &mut Rng, sigma: u64) {
        let (spec, f) = if r.chance(1, 2) {
            (OSpec::Poly, poly_circuit(r, 3, 5))
        } else {
            let pa = OhParams { max_nodes: 4, max_edges: 3, max_arity: 2, max_iface: 2, node_labels: 2, edge_labels: 3 };
            let mut f = gen::oh(r, &pa);
            gen::uniquify_edge_labels(&mut f);
            (OSpec::random_structural(r), f)
        };
        let input = || json!({"sigma": sigma, "optic": format!("{:?}", spec), "f": show(&f)});
        ctx.nontrivial(&("optic", sigma, &spec, &f));
        adv::set_seed(sigma);
        let af = to_adv(&f);
        let optic = adv_optic(&spec);
        let (a, b) = (f.src_type(), f.tgt_type());
        let want = match spec.optic(&f) {
            Ok(w) => w,
            Err(e) => {
                ctx.inconclusive(&format!("model optic failed: {:?}", e));
                return;
            }
        };
        if let Some(img) = lib(ctx, "adv::Optic::map_arrow", "any", &input, || optic.map_arrow(&af)) {
            ctx.count("op:optic");
            match from_adv(&img) {
                Ok(p) => {
                    let ty = p.src_type() == spec.interleaved(&a) && p.tgt_type() == spec.interleaved(&b);
                    if ctx.check(ty, "adv::Optic::map_arrow/type/value/any", || json!({"input": input(), "observed": show(&p)})) {
                        expect_iso(ctx, "adv::Optic::map_arrow", "model-lens-substitution", "any", &p, &want, &input);
                    }
                }
                Err(e) => {
                    ctx.check(false, "adv::Optic::map_arrow/well-formed/value/any", || json!({"input": input(), "observed": e}));
                }
            }
            if let Some(ad) = lib(ctx, "adv::Optic::adapt", "any", &input, || optic.adapt(&img, &asf(a.clone()), &asf(b.clone()))) {
                if let Ok(p) = from_adv(&ad) {
                    expect_iso(ctx, "adv::Optic::adapt", "re-bent-interfaces", "any", &p, &spec.adapt(&want, &a, &b), &input);
                } else {
                    ctx.check(false, "adv::Optic::adapt/well-formed/value/any", || json!({"input": input()}));
                }
            }
        }
        ctx.sample("optic", || input());
    }

    fn graph_algorithms(&self, ctx: &mut Ctx, r: &mut Rng, sigma: u64) {
        let p = match r.below(3) {
            0 => gen::oh(r, &OhParams::dense()),
            1 => gen::oh(r, &OhParams::small()),
            _ => gen::monogamous_acyclic(r, 3, 5, &OhParams::small()),
        };
        let input = || json!({"sigma": sigma, "f": show(&p)});
        ctx.nontrivial(&("graph", sigma, &p));
        adv::set_seed(sigma);
        let af = to_adv(&p);
        let vf = to_strict(&p);
        // layering from either backend satisfies the C15 oracle; flags agree
        ctx.count("op:layer");
        let succ = op_succs(&p);
        let al = lib(ctx, "adv::layer", "any", &input, || layer(&af));
        let vl = lib(ctx, "vec::layer", "any", &input, || layer(&vf));
        if let (Some((ao, au)), Some((_vo, vu))) = (al, vl) {
            match judge_layering(&succ, &ao.table.0, &au.0) {
                Ok(()) => ctx.evaluations += 1,
                Err((clause, why)) => {
                    ctx.evaluations += 1;
                    ctx.violation(&format!("adv::layer/{}/value/any", clause), json!({"input": input(), "layer": ao.table.0, "unvisited": au.0, "why": why}));
                }
            }
            let same = au.0.len() == vu.0.len() && au.0.iter().zip(vu.0.iter()).all(|(a, b)| (*a != 0) == (*b != 0));
            ctx.check(same, "layer/same-unvisited-flags-across-backends/value/any", || json!({"input": input(), "adv": au.0, "vec": vu.0}));
        }
        // the grouped form at the adversarial backend: every visited operation once, in the group of a valid
        // layering; flags as on the Vec backend
        {
            let al = lib(ctx, "adv::layered_operations", "any", &input, || layered_operations(&af));
            let vl = lib(ctx, "vec::layer", "any", &input, || layer(&vf));
            if let (Some((groups, au)), Some((_vo, vu))) = (al, vl) {
                ctx.count("op:layered_operations");
                let m = p.e.len();
                let mut group_of: Vec<Option<usize>> = vec![None; m];
                let mut ok = au.0.len() == m;
                let mut twice = false;
                for (gi, g) in groups.iter().enumerate() {
                    for &y in g.0.iter() {
                        if y >= m {
                            ok = false;
                            continue;
                        }
                        if ok && au.0[y] == 0 {
                            if group_of[y].is_some() {
                                twice = true;
                            }
                            group_of[y] = Some(gi);
                        }
                    }
                }
                if ok && !twice {
                    // the group index of every visited operation must be a valid layering
                    let order: Vec<usize> = (0..m).map(|y| group_of[y].unwrap_or(0)).collect();
                    let missing = (0..m).any(|y| au.0[y] == 0 && group_of[y].is_none());
                    match (missing, judge_layering(&succ, &order, &au.0)) {
                        (false, Ok(())) => ctx.evaluations += 1,
                        (true, _) => {
                            ctx.check(false, "adv::layered_operations/exactly-once-in-own-group/value/any", || json!({"input": input(), "groups": groups.iter().map(|g| g.0.clone()).collect::<Vec<_>>(), "unvisited": au.0}));
                        }
                        (_, Err((clause, why))) => {
                            ctx.evaluations += 1;
                            ctx.violation(&format!("adv::layered_operations/{}/value/any", clause), json!({"input": input(), "groups": groups.iter().map(|g| g.0.clone()).collect::<Vec<_>>(), "unvisited": au.0, "why": why}));
                        }
                    }
                } else {
                    ctx.check(false, "adv::layered_operations/exactly-once-in-own-group/value/any", || json!({"input": input(), "groups": groups.iter().map(|g| g.0.clone()).collect::<Vec<_>>(), "unvisited": au.0}));
                }
                let same = au.0.len() == vu.0.len() && au.0.iter().zip(vu.0.iter()).all(|(a, b)| (*a != 0) == (*b != 0));
                ctx.check(same, "layered_operations/same-unvisited-flags-across-backends/value/any", || json!({"input": input(), "adv": au.0, "vec": vu.0}));
            }
        }
        // predicates and degrees
        ctx.count("op:predicates");
        let ap = lib(ctx, "adv::predicates", "any", &input, || (af.is_acyclic(), af.is_monogamous(), (0..p.w.len()).map(|v| (af.h.in_degree(v), af.h.out_degree(v))).collect::<Vec<_>>()));
        if let Some((ac, mo, deg)) = ap {
            let want_deg: Vec<(usize, usize)> = (0..p.w.len()).map(|v| (in_degree(&p, v), out_degree(&p, v))).collect();
            ctx.check(ac == acyclic(&node_succs(&p)) && mo == monogamous(&p) && deg == want_deg, "adv::predicates/same-as-definitions/value/any", || {
                json!({"input": input(), "observed": {"acyclic": ac, "monogamous": mo, "degrees": format!("{:?}", deg)}})
            });
        }
        ctx.sample("graph_algorithms", || input());
    }

    fn evaluation(&self, ctx: &mut Ctx, r: &mut Rng, sigma: u64) {
        let p = if r.chance(3, 4) { super::c16::circuit(r, 4, 7) } else { super::c16::arbitrary(r, &OhParams::small()) };
        let inputs: Vec<u64> = (0..p.s.len()).map(|_| r.next()).collect();
        let input = || json!({"sigma": sigma, "f": show(&p), "inputs": inputs});
        ctx.nontrivial(&("eval", sigma, &p));
        ctx.count("op:eval");
        adv::set_seed(sigma);
        let re = ref_eval(&p, &inputs, &|l, x| gate_apply(l, x));
        let res = adv_eval(&to_adv(&p), inputs.clone());
        // the two backends must agree with each other on every acyclic single-writer diagram, also where a
        // node is read that nobody writes (its value must not come from a backend choice such as the scatter filler)
        if re.out.is_some() && !re.multi_write {
            let vec_run = crate::evalx::run_eval(&to_strict(&p), inputs.clone(), &|l, x| gate_apply(l, x));
            if let (Ok(a), Ok(v)) = (&res, &vec_run.result) {
                ctx.check(a == v, "eval/same-outcome-across-backends/value/any", || json!({"input": input(), "adv": format!("{:?}", a), "vec": format!("{:?}", v)}));
                if re.unwritten_read {
                    ctx.class("eval_reads_unwritten_node_across_backends");
                }
            }
        }
        ctx.evaluations += 1;
        match res {
            Err(pn) => {
                if re.multi_write && re.out.is_some() {
                    ctx.count("unjudged:multi_write");
                } else {
                    ctx.violation(&format!("adv::eval/returns/{}/any", pn.sig()), json!({"input": input(), "observed": pn.json()}));
                }
            }
            Ok(out) => {
                if re.out.is_none() {
                    ctx.check(out.is_none(), "adv::eval/refuses-cyclic/value/any", || json!({"input": input(), "observed": format!("{:?}", out)}));
                } else if !re.multi_write {
                    let ok = match (&out, &re.out) {
                        (Some(o), Some(w)) => re.unwritten_read || o == w,
                        _ => false,
                    };
                    ctx.check(ok, "adv::eval/same-output-as-reference/value/any", || json!({"input": input(), "observed": format!("{:?}", out), "expected": format!("{:?}", re.out)}));
                } else {
                    ctx.count("unjudged:multi_write");
                }
            }
        }
        ctx.sample("evaluation", || input());
    }

    fn morphisms(&self, ctx: &mut Ctx, r: &mut Rng, sigma: u64) {
        // reuse the C18 oracle on a random sub-hypergraph inclusion or junk maps
        let hp = if r.chance(1, 2) { OhParams::small() } else { OhParams::dense() };
        let mut h = gen::oh(r, &hp);
        h.s = vec![];
        h.t = vec![];
        let m: Mor = if r.chance(2, 3) {
            // inclusion of a random edge subset with all incident nodes
            let keep: Vec<usize> = (0..h.e.len()).filter(|_| r.chance(1, 2)).collect();
            let mut need = vec![false; h.w.len()];
            for &k in &keep {
                for &v in h.e[k].s.iter().chain(h.e[k].t.iter()) {
                    need[v] = true;
                }
            }
            let kw: Vec<usize> = (0..h.w.len()).filter(|&v| need[v] || r.chance(1, 3)).collect();
            let mut pos = vec![usize::MAX; h.w.len()];
            for (i, &v) in kw.iter().enumerate() {
                pos[v] = i;
            }
            let g = POh {
                w: kw.iter().map(|&v| h.w[v]).collect(),
                e: keep.iter().map(|&k| PEdge { l: h.e[k].l, s: h.e[k].s.iter().map(|&v| pos[v]).collect(), t: h.e[k].t.iter().map(|&v| pos[v]).collect() }).collect(),
                s: vec![],
                t: vec![],
            };
            Mor { g, h: h.clone(), w: (kw, h.w.len()), x: (keep, h.e.len()) }
        } else {
            let mut g = gen::oh(r, &OhParams::tiny());
            g.s = vec![];
            g.t = vec![];
            let w = if h.w.is_empty() { vec![] } else { r.vec_below(g.w.len(), h.w.len()) };
            let x = if h.e.is_empty() { vec![] } else { r.vec_below(g.e.len(), h.e.len()) };
            Mor { g, h: h.clone(), w: (w, h.w.len()), x: (x, h.e.len()) }
        };
        let input = || json!({"sigma": sigma, "source": show(&m.g), "target": show(&m.h), "w": m.w.0, "x": m.x.0});
        ctx.nontrivial(&("mor", sigma, &m));
        ctx.count("op:morphisms");
        adv::set_seed(sigma);
        let (fail, _, _) = failing(&m);
        let (ag, ah) = (to_adv(&m.g).h, to_adv(&m.h).h);
        let res = lib(ctx, "adv::HypergraphArrow::new", "any", &input, || HypergraphArrow::new(ag, ah, aff(m.w.0.clone(), m.w.1), aff(m.x.0.clone(), m.x.1)));
        if let Some(res) = res {
            ctx.check(res.is_ok() == fail.is_empty(), "adv::HypergraphArrow::new/accepts-iff-natural/value/any", || json!({"input": input(), "observed_ok": res.is_ok()}));
            if let Ok(a) = res {
                if let Some((mono, cvx)) = lib(ctx, "adv::is_convex_subgraph", "any", &input, || (a.is_monomorphism(), a.is_convex_subgraph())) {
                    let wm = { let inj = |t: &Vec<usize>| { let mut d = t.clone(); d.sort(); d.dedup(); d.len() == t.len() }; inj(&m.w.0) && inj(&m.x.0) };
                    ctx.check(mono == wm && cvx == convex(&m), "adv::is_convex_subgraph/same-as-definition/value/any", || json!({"input": input(), "observed": [mono, cvx], "expected": [wm, convex(&m)]}));
                }
            }
        }
        ctx.sample("morphisms", || input());
    }
}

const CHOICES: [&str; 6] = ["argsort_tie_order", "component_numbering", "sparse_bincount_key_order", "zero_index_order", "scatter_filler_and_write_order", "scatter_assign_write_order"];

impl Monitor for C20 {
    fn id(&self) -> &'static str {
        "C20"
    }
    fn uses_iso(&self) -> bool {
        true
    }
    fn rule(&self) -> &'static str {
        "cases: each case draws a backend seed sigma and one operation family: (a) compose / tensor / strict functor application (C12 family), (b) optic map_arrow + adapt (C14 families), (c) layer, \
         is_acyclic, is_monogamous, degrees, (d) eval on the C16 circuits, (e) HypergraphArrow::new / is_monomorphism / is_convex_subgraph; the call is made at AdvKind<sigma>, a second ArrayKind defined \
         in the harness whose argsort breaks ties in a seeded order, whose component labels are a seeded permutation of 0..k, whose sparse_bincount keys and zero() indices come in seeded order and whose \
         scatter uses a seeded filler and write order, and compared with the Vec backend / the plain model: composites, functor and optic images isomorphic and equally typed; tensor identical; layering \
         satisfies the C15 oracle with identical unvisited flags; predicates, degrees, eval Some/None and output values, arrow acceptance, monomorphism and convexity equal to the definitions. Every 8th case \
         runs the C07 scalar-definition checker on AdvKind itself (a test backend that breaks the contract makes the run inconclusive). Counters choice:*/diverged:* record how often each kind of choice \
         point was reached and actually answered differently from the Vec backend. non-trivial = every case (each exercises >=1 diverging choice point with overwhelming probability; measured by the \
         diverged:* floors); distinct = hash of (family, sigma, inputs). Also at AdvKind: layered_operations, the library's Identity functor, refusal of a mismatching composition. AdvKind's choices are a deterministic function of (sigma, primitive, argument contents)."
    }
    fn corpus_len(&self) -> u64 {
        0
    }
    fn floors(&self) -> Vec<(&'static str, u64)> {
        let mut v: Vec<(&'static str, u64)> = vec![
            ("op:compose", 100),
            ("op:tensor", 100),
            ("op:functor", 100),
            ("op:optic", 100),
            ("op:layer", 100),
            ("op:layered_operations", 100),
            ("op:identity_functor", 100),
            ("op:compose_refusal", 50),
            ("op:predicates", 100),
            ("op:eval", 100),
            ("op:morphisms", 100),
            ("class:eval_reads_unwritten_node_across_backends", 20),
            ("guard:backend_contract_checks", 1000),
        ];
        // the library is free to stop using a primitive (then its kind of choice point is simply never
        // reached), so the floor is on the total number of diverging choice points, not per kind
        let _ = CHOICES;
        v.push(("diverged:any", 1000));
        v
    }
    fn run_case(&self, idx: u64, r: &mut Rng, ctx: &mut Ctx) {
        if idx % 8 == 0 {
            self.guard_backend(ctx, r);
        }
        let _ = adv::take_counters();
        let sigma = r.next();
        let family = match r.below(8) {
            0 | 1 | 2 => { self.categorical(ctx, r, sigma); "categorical" }
            3 => { self.optic(ctx, r, sigma); "optic" }
            4 | 5 => { self.graph_algorithms(ctx, r, sigma); "layering_and_predicates" }
            6 => { self.evaluation(ctx, r, sigma); "evaluation" }
            _ => { self.morphisms(ctx, r, sigma); "morphisms" }
        };
        let (div, pts) = adv::take_counters();
        for (k, v) in div {
            ctx.count_n(&format!("diverged:{}", k), v);
            ctx.count_n("diverged:any", v);
            ctx.count_n(&format!("diverged_in:{}", family), v);
        }
        for (k, v) in pts {
            ctx.count_n(&format!("choice:{}", k), v);
        }
    }
}
