//! C02 Tensor product is strict juxtaposition (strict and lax), associative and unital on the nose.

use super::common::*;
use crate::conv::*;
use crate::ctx::*;
use crate::gen::{self, OhParams, P, PL};
use crate::model::*;
use crate::rng::Rng;
use open_hypergraphs::category::{Arrow, Monoidal};
use open_hypergraphs::lax;
use serde_json::json;

/// a label type larger than 64 bytes
#[derive(Clone, Debug, PartialEq, Eq, Hash, PartialOrd, Ord)]
pub struct Big {
    pub name: String,
    pub shape: Vec<usize>,
    pub attrs: Vec<(String, i64)>,
}

pub struct C02;

/// nodes, hyperedges and interfaces equal field for field; pending unification pairs equal as a
/// multiset of (offset) unordered pairs -- neither the list order nor the orientation of a pair carries meaning
fn same_lax_up_to_pair_order<O: Lbl, A: Lbl>(a: &PLax<O, A>, b: &PLax<O, A>) -> bool {
    let norm = |q: &Vec<(usize, usize)>| { let mut v: Vec<(usize, usize)> = q.iter().map(|&(x, y)| (x.min(y), x.max(y))).collect(); v.sort(); v };
    let (qa, qb) = (norm(&a.q), norm(&b.q));
    a.w == b.w && a.e == b.e && a.s == b.s && a.t == b.t && qa == qb
}

impl C02 {
    fn strict<O: Lbl, A: Lbl>(&self, ctx: &mut Ctx, class: &str, f: &POh<O, A>, g: &POh<O, A>, h: &POh<O, A>) {
        let input = || json!({"f": show(f), "g": show(g), "h": show(h)});
        let (lf, lg, lh) = (to_strict(f), to_strict(g), to_strict(h));
        if (!f.w.is_empty() && !g.w.is_empty()) || class != "random" {
            ctx.nontrivial(&("strict", f, g, h));
        }
        let want = f.tensor(g);
        for api in ["tensor", "bitor"] {
            let r = if api == "tensor" { lib(ctx, api, class, &input, || lf.tensor(&lg)) } else { lib(ctx, api, class, &input, || &lf | &lg) };
            if let Some(t) = r {
                if let Some(got) = walk(ctx, api, class, &t, &input) {
                    expect_equal(ctx, api, "juxtaposition", class, &got, &want, &input);
                    // type of the result is the concatenation of the types (read through the API)
                    let ty = lib(ctx, "source/target", class, &input, || (t.source().0 .0.clone(), t.target().0 .0.clone()));
                    if let Some((s, tt)) = ty {
                        let mut ws = f.src_type();
                        ws.extend(g.src_type());
                        let mut wt = f.tgt_type();
                        wt.extend(g.tgt_type());
                        ctx.check(s == ws && tt == wt, &format!("{}/type-is-concatenation/value/{}", api, class), || json!({"input": input(), "observed": format!("{:?}->{:?}", s, tt)}));
                    }
                }
            }
        }
        // associativity on the nose
        let l = lib(ctx, "tensor", class, &input, || lf.tensor(&lg).tensor(&lh));
        let r = lib(ctx, "tensor", class, &input, || lf.tensor(&lg.tensor(&lh)));
        if let (Some(l), Some(r)) = (l, r) {
            if let (Some(pl), Some(pr)) = (walk(ctx, "tensor", class, &l, &input), walk(ctx, "tensor", class, &r, &input)) {
                expect_equal(ctx, "tensor", "associative-on-the-nose", class, &pl, &pr, &input);
                expect_equal(ctx, "tensor", "juxtaposition3", class, &pl, &f.tensor(g).tensor(h), &input);
            }
        }
        // two-sided unit on the nose
        let unit = lib(ctx, "identity(unit)", class, &input, || SOh::<O, A>::identity(<SOh<O, A> as Monoidal>::unit()));
        if let Some(u) = unit {
            let l = lib(ctx, "tensor", class, &input, || lf.tensor(&u));
            let r = lib(ctx, "tensor", class, &input, || u.tensor(&lf));
            if let (Some(l), Some(r)) = (l, r) {
                if let (Some(pl), Some(pr)) = (walk(ctx, "tensor", class, &l, &input), walk(ctx, "tensor", class, &r, &input)) {
                    ctx.count("law:unit");
                    expect_equal(ctx, "tensor", "right-unit-on-the-nose", class, &pl, f, &input);
                    expect_equal(ctx, "tensor", "left-unit-on-the-nose", class, &pr, f, &input);
                }
            }
        }
        ctx.sample(class, || json!({"kind": "strict", "f": show(f), "g": show(g), "h": show(h)}));
    }

    fn lax<O: Lbl, A: Lbl>(&self, ctx: &mut Ctx, class: &str, f: &PLax<O, A>, g: &PLax<O, A>, h: &PLax<O, A>) {
        let input = || json!({"f": show_lax(f), "g": show_lax(g), "h": show_lax(h)});
        let (lf, lg, lh) = (to_lax(f), to_lax(g), to_lax(h));
        if !g.q.is_empty() {
            ctx.class("lax_pending_unifications_on_right_operand");
        }
        if (!f.w.is_empty() && !g.w.is_empty()) || class != "random" {
            ctx.nontrivial(&("lax", f, g, h));
        }
        let want = f.tensor(g);
        for api in ["lax::tensor", "lax::Monoidal::tensor", "lax::bitor"] {
            let r = match api {
                "lax::tensor" => lib(ctx, api, class, &input, || lax::OpenHypergraph::tensor(&lf, &lg)),
                "lax::Monoidal::tensor" => lib(ctx, api, class, &input, || Monoidal::tensor(&lf, &lg)),
                _ => lib(ctx, api, class, &input, || &lf | &lg),
            };
            if let Some(t) = r {
                ctx.count("wf:walked");
                let got = from_lax_raw(&t);
                // (the raw copy zips label and incidence lists: lengths are compared separately)
                ctx.check(same_lax_up_to_pair_order(&got, &want) && wf_lax(&t).is_empty(), &format!("{}/juxtaposition/value/{}", api, class), || {
                    json!({"input": input(), "observed": show_lax(&got), "expected_exactly": show_lax(&want)})
                });
                let ty = lib(ctx, "lax::source/target", class, &input, || (Arrow::source(&t), Arrow::target(&t)));
                if let Some((s, tt)) = ty {
                    let fo = f.forget_q();
                    let go = g.forget_q();
                    let mut ws = fo.src_type();
                    ws.extend(go.src_type());
                    let mut wt = fo.tgt_type();
                    wt.extend(go.tgt_type());
                    ctx.check(s == ws && tt == wt, &format!("{}/type-is-concatenation/value/{}", api, class), || json!({"input": input(), "observed": format!("{:?}->{:?}", s, tt)}));
                }
            }
        }
        // the in-place variants build the same juxtaposition
        {
            let mut x = lf.clone();
            let y = lg.clone();
            if lib(ctx, "lax::tensor_assign", class, &input, || x.tensor_assign(y)).is_some() {
                let got = from_lax_raw(&x);
                ctx.check(same_lax_up_to_pair_order(&got, &want) && wf_lax(&x).is_empty(), &format!("lax::tensor_assign/juxtaposition/value/{}", class), || {
                    json!({"input": input(), "observed": show_lax(&got), "expected": show_lax(&want)})
                });
            }
        }
        let l = lib(ctx, "lax::tensor", class, &input, || lf.tensor(&lg).tensor(&lh));
        let r = lib(ctx, "lax::tensor", class, &input, || lf.tensor(&lg.tensor(&lh)));
        if let (Some(l), Some(r)) = (l, r) {
            ctx.check(l == r, &format!("lax::tensor/associative-on-the-nose/value/{}", class), || {
                json!({"input": input(), "lhs": show_lax(&from_lax_raw(&l)), "rhs": show_lax(&from_lax_raw(&r))})
            });
            let want3 = f.tensor(g).tensor(h);
            for (side, x) in [("lhs", &l), ("rhs", &r)] {
                let got = from_lax_raw(x);
                ctx.check(same_lax_up_to_pair_order(&got, &want3) && wf_lax(x).is_empty(), &format!("lax::tensor/juxtaposition3/value/{}", class), || {
                    json!({"input": input(), "side": side, "observed": show_lax(&got), "expected": show_lax(&want3)})
                });
            }
        }
        // the unit: the identity on the unit object is the empty diagram
        let u = lax::OpenHypergraph::<O, A>::empty();
        if let Some(iu) = lib(ctx, "lax::identity(unit)", class, &input, || <LOh<O, A> as Arrow>::identity(<LOh<O, A> as Monoidal>::unit())) {
            ctx.check(from_lax_raw(&iu) == PLax::empty() && wf_lax(&iu).is_empty() && from_lax_raw(&u) == PLax::empty(), &format!("lax::identity(unit)/is-the-empty-diagram/value/{}", class), || {
                json!({"observed": show_lax(&from_lax_raw(&iu))})
            });
        }
        let l = lib(ctx, "lax::tensor", class, &input, || lf.tensor(&u));
        let r = lib(ctx, "lax::tensor", class, &input, || u.tensor(&lf));
        if let (Some(l), Some(r)) = (l, r) {
            ctx.count("law:lax_unit");
            ctx.check(l == lf && same_lax_up_to_pair_order(&from_lax_raw(&l), f) && wf_lax(&l).is_empty(), &format!("lax::tensor/right-unit-on-the-nose/value/{}", class), || json!({"input": input(), "observed": show_lax(&from_lax_raw(&l))}));
            ctx.check(r == lf && same_lax_up_to_pair_order(&from_lax_raw(&r), f) && wf_lax(&r).is_empty(), &format!("lax::tensor/left-unit-on-the-nose/value/{}", class), || json!({"input": input(), "observed": show_lax(&from_lax_raw(&r))}));
        }
        ctx.sample(class, || json!({"kind": "lax", "f": show_lax(f), "g": show_lax(g)}));
    }
}

impl Monitor for C02 {
    fn id(&self) -> &'static str {
        "C02"
    }
    fn rule(&self) -> &'static str {
        "cases: fixed shapes (left/right/both operands empty, zero-arity hyperedges, pending unifications on the right operand) then seeded triples of strict diagrams and of \
         lax diagrams (with pending unification pairs), all size combinations including empty node sets, edge sets and interfaces. Oracle: model juxtaposition computed by loops, \
         compared field for field (node labels, every incidence list, both interfaces, pending pairs offset by the left node count, compared as a multiset since their list order carries no meaning; also through the in-place tensor_assign; segment codomains via the deep walker); result \
         type = concatenation read through source()/target(); (f|g)|h == f|(g|h) and f|empty == f == empty|f as raw data. non-trivial = both operands non-empty or a fixed shape; \
         distinct = hash of the triple. A quarter of the random strict triples are repeated (strict and lax) over heap-allocated labels, labels of 72 bytes and zero-sized labels. Also: lax results are walked (lengths of all public vectors, ranges), the three-fold lax tensor is compared with the model, and the identity on the unit object must be the empty diagram."
    }
    fn corpus_len(&self) -> u64 {
        6
    }
    fn floors(&self) -> Vec<(&'static str, u64)> {
        vec![
            ("class:left_empty", 1),
            ("class:right_empty", 1),
            ("class:both_empty", 1),
            ("class:zero_arity_edges", 1),
            ("class:lax_pending_unifications_on_right_operand", 50),
            ("api:tensor", 500),
            ("api:bitor", 200),
            ("api:lax::tensor", 500),
            ("api:lax::Monoidal::tensor", 100),
            ("api:lax::bitor", 100),
            ("api:lax::tensor_assign", 200),
            ("class:operand_with_several_hundred_wires", 100),
            ("class:labels_on_the_heap", 200),
            ("class:labels_larger_than_64_bytes", 200),
            ("class:labels_of_size_zero", 200),
            ("class:operand_with_more_than_a_thousand_wires", 50),
            ("law:unit", 200),
            ("law:lax_unit", 200),
        ]
    }
    fn run_case(&self, idx: u64, r: &mut Rng, ctx: &mut Ctx) {
        let e = |l: u64, s: &[usize], t: &[usize]| PEdge { l, s: s.to_vec(), t: t.to_vec() };
        let a: P = POh { w: vec![0, 1], e: vec![e(0, &[0], &[1, 1])], s: vec![0, 0], t: vec![1] };
        let z: P = POh { w: vec![2], e: vec![e(1, &[], &[]), e(2, &[], &[])], s: vec![], t: vec![0] };
        let empty = P::empty();
        match idx {
            0 => { ctx.class("left_empty"); self.strict(ctx, "left_empty", &empty, &a, &z); self.lax(ctx, "left_empty", &empty.to_lax(), &a.to_lax(), &z.to_lax()); }
            1 => { ctx.class("right_empty"); self.strict(ctx, "right_empty", &a, &empty, &z); self.lax(ctx, "right_empty", &a.to_lax(), &empty.to_lax(), &z.to_lax()); }
            2 => { ctx.class("both_empty"); self.strict(ctx, "both_empty", &empty, &empty, &empty); self.lax(ctx, "both_empty", &empty.to_lax(), &empty.to_lax(), &empty.to_lax()); }
            3 => { ctx.class("zero_arity_edges"); self.strict(ctx, "zero_arity_edges", &z, &z, &a); self.lax(ctx, "zero_arity_edges", &z.to_lax(), &z.to_lax(), &a.to_lax()); }
            4 => {
                let mut g = a.to_lax();
                g.q = vec![(0, 1), (1, 1)];
                self.lax(ctx, "pending_right", &a.to_lax(), &g, &g);
            }
            5 => {
                let d: P = POh { w: vec![0, 0, 0], e: vec![], s: vec![2, 0], t: vec![1, 1, 1] };
                self.strict(ctx, "discrete", &d, &a, &d);
            }
            _ if r.chance(1, 400) => {
                // wide operands: interfaces and incidence arrays of several hundred entries (a quarter of them: more
                // than a thousand), and in the lax representation more than a hundred pending pairs on the right operand
                let very = r.chance(1, 4);
                let n = if very { ctx.class("operand_with_more_than_a_thousand_wires"); r.range(1100, 2100) } else { r.range(260, 420) };
                let wide = |r: &mut Rng| -> P {
                    let w: Vec<u32> = (0..n).map(|_| r.below(3) as u32).collect();
                    let e = vec![PEdge { l: 0, s: r.vec_below(n, n), t: r.vec_below(5, n) }];
                    POh { w, e, s: r.vec_below(n, n), t: r.vec_below(n / 2, n) }
                };
                let (f, g) = (gen::oh(r, &OhParams::small()), wide(r));
                ctx.class("operand_with_several_hundred_wires");
                let small = gen::oh(r, &OhParams::tiny());
                self.strict(ctx, "wide", &f, &g, &small);
                let mut lf = f.to_lax();
                let mut lg = g.to_lax();
                for _ in 0..r.range(130, 300) {
                    let (a, b) = (r.below(n), r.below(n));
                    lg.q.push((a, b));
                }
                if !f.w.is_empty() {
                    for _ in 0..r.small(4) {
                        let (a, b) = (r.below(f.w.len()), r.below(f.w.len()));
                        lf.q.push((a, b));
                    }
                }
                self.lax(ctx, "wide", &lf, &lg, &small.to_lax());
            }
            _ => {
                let params = match r.below(4) { 0 => OhParams::tiny(), 1 | 2 => OhParams::small(), _ => if ctx.thorough { OhParams::medium() } else { OhParams::dense() } };
                if r.chance(1, 2) {
                    let (f, g, h) = (gen::oh(r, &params), gen::oh(r, &params), gen::oh(r, &params));
                    self.strict(ctx, "random", &f, &g, &h);
                    match r.below(12) {
                        0 => {
                            // heap-allocated labels (String nodes, Vec<u8> hyperedges)
                            ctx.class("labels_on_the_heap");
                            let m = |p: &P| p.map_labels(|o| format!("node-label-{}", o), |a| format!("op{}", a).into_bytes());
                            self.strict(ctx, "heap_labels", &m(&f), &m(&g), &m(&h));
                            self.lax(ctx, "heap_labels", &m(&f).to_lax(), &m(&g).to_lax(), &m(&h).to_lax());
                        }
                        1 => {
                            // labels larger than a cache line (a struct of three heap fields, 72 bytes)
                            ctx.class("labels_larger_than_64_bytes");
                            let big = |x: u64| Big { name: format!("n{}", x), shape: vec![x as usize; (x % 3) as usize], attrs: vec![(format!("k{}", x), x as i64)] };
                            let m = |p: &P| p.map_labels(|o| big(*o as u64), |a| big(*a + 100));
                            self.strict(ctx, "big_labels", &m(&f), &m(&g), &m(&h));
                            self.lax(ctx, "big_labels", &m(&f).to_lax(), &m(&g).to_lax(), &m(&h).to_lax());
                        }
                        2 => {
                            // zero-sized labels
                            ctx.class("labels_of_size_zero");
                            let m = |p: &P| p.map_labels(|_| (), |_| ());
                            self.strict(ctx, "unit_labels", &m(&f), &m(&g), &m(&h));
                            self.lax(ctx, "unit_labels", &m(&f).to_lax(), &m(&g).to_lax(), &m(&h).to_lax());
                        }
                        _ => {}
                    }
                } else {
                    let (f, g, h) = (gen::lax(r, &params, 3, false), gen::lax(r, &params, 3, false), gen::lax(r, &params, 3, false));
                    self.lax(ctx, "random", &f, &g, &h);
                }
            }
        }
    }
}
