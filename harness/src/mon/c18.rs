//! C18 Hypergraph morphism validation, monomorphism and convexity tests are exact.

use super::common::*;
use crate::conv::*;
use crate::ctx::*;
use crate::gen::{self, OhParams, P};
use crate::model::*;
use crate::rng::Rng;
use open_hypergraphs::strict::hypergraph::arrow::{HypergraphArrow, InvalidHypergraphArrow};
use serde_json::json;
use std::collections::BTreeSet;

pub struct C18;

#[derive(Clone, Debug, Hash, PartialEq, Eq)]
pub struct Mor {
    pub g: P, // source hypergraph (interfaces unused)
    pub h: P, // target hypergraph
    pub w: (Vec<usize>, usize),
    pub x: (Vec<usize>, usize),
}

/// which naturality conditions fail; also whether w / x are mistyped in their codomain
pub fn failing(m: &Mor) -> (BTreeSet<char>, bool, bool) {
    let (g, h) = (&m.g, &m.h);
    let mut fail = BTreeSet::new();
    let w_typed = m.w.0.len() == g.w.len() && m.w.1 == h.w.len();
    let x_typed = m.x.0.len() == g.e.len() && m.x.1 == h.e.len();
    // "type mismatch" = the map's domain or codomain size really is wrong
    let w_cod_wrong = m.w.1 != h.w.len() || m.w.0.len() != g.w.len();
    let x_cod_wrong = m.x.1 != h.e.len() || m.x.0.len() != g.e.len();
    if !w_typed || (0..g.w.len()).any(|i| g.w[i] != h.w[m.w.0[i]]) {
        fail.insert('W');
    }
    if !x_typed || (0..g.e.len()).any(|k| g.e[k].l != h.e[m.x.0[k]].l) {
        fail.insert('X');
    }
    if !w_typed || !x_typed {
        fail.insert('S');
        fail.insert('T');
    } else {
        for k in 0..g.e.len() {
            let img_s: Vec<usize> = g.e[k].s.iter().map(|&v| m.w.0[v]).collect();
            let img_t: Vec<usize> = g.e[k].t.iter().map(|&v| m.w.0[v]).collect();
            if img_s != h.e[m.x.0[k]].s {
                fail.insert('S');
            }
            if img_t != h.e[m.x.0[k]].t {
                fail.insert('T');
            }
        }
    }
    (fail, w_cod_wrong, x_cod_wrong)
}

fn injective(t: &[usize]) -> bool {
    let mut d = t.to_vec();
    d.sort();
    d.dedup();
    d.len() == t.len()
}

/// brute-force convexity of the image of a (valid) morphism: exhaustive search over states
/// (node, used-an-outside-edge)
pub fn convex(m: &Mor) -> bool {
    if !injective(&m.w.0) || !injective(&m.x.0) {
        return false;
    }
    let h = &m.h;
    let n = h.w.len();
    let inside_edge: Vec<bool> = (0..h.e.len()).map(|k| m.x.0.contains(&k)).collect();
    let image_node: Vec<bool> = (0..n).map(|v| m.w.0.contains(&v)).collect();
    let mut seen = vec![[false, false]; n];
    let mut stack: Vec<(usize, usize)> = vec![];
    for v in 0..n {
        if image_node[v] {
            seen[v][0] = true;
            stack.push((v, 0));
        }
    }
    while let Some((v, used)) = stack.pop() {
        for (k, e) in h.e.iter().enumerate() {
            if e.s.contains(&v) {
                let used2 = if inside_edge[k] { used } else { 1 };
                for &u in &e.t {
                    if used2 == 1 && image_node[u] {
                        return false;
                    }
                    if !seen[u][used2] {
                        seen[u][used2] = true;
                        stack.push((u, used2));
                    }
                }
            }
        }
    }
    true
}

fn hyper(r: &mut Rng, params: &OhParams) -> P {
    let mut p = gen::oh(r, params);
    p.s = vec![];
    p.t = vec![];
    p
}

/// a natural inclusion of a sub-hypergraph with shuffled node and edge order
fn inclusion(r: &mut Rng, h: &P, all: bool, none: bool) -> Mor {
    let ne = h.e.len();
    let keep_e: Vec<usize> = (0..ne).filter(|_| !none && (all || r.chance(1, 2))).collect();
    let mut need = vec![false; h.w.len()];
    for &k in &keep_e {
        for &v in h.e[k].s.iter().chain(h.e[k].t.iter()) {
            need[v] = true;
        }
    }
    let mut keep_w: Vec<usize> = (0..h.w.len()).filter(|&v| need[v] || (!none && (all || r.chance(1, 3)))).collect();
    r.shuffle(&mut keep_w);
    let mut keep_e = keep_e;
    r.shuffle(&mut keep_e);
    let mut pos = vec![usize::MAX; h.w.len()];
    for (i, &v) in keep_w.iter().enumerate() {
        pos[v] = i;
    }
    let g = POh {
        w: keep_w.iter().map(|&v| h.w[v]).collect(),
        e: keep_e.iter().map(|&k| PEdge { l: h.e[k].l, s: h.e[k].s.iter().map(|&v| pos[v]).collect(), t: h.e[k].t.iter().map(|&v| pos[v]).collect() }).collect(),
        s: vec![],
        t: vec![],
    };
    Mor { g, h: h.clone(), w: (keep_w, h.w.len()), x: (keep_e, h.e.len()) }
}

/// natural but non-injective: two copies of a sub-hypergraph folded onto it
fn fold(r: &mut Rng, h: &P) -> Mor {
    let a = inclusion(r, h, false, false);
    let b = inclusion(r, h, false, false);
    let g = a.g.tensor(&b.g);
    let mut w = a.w.0.clone();
    w.extend(b.w.0.iter().cloned());
    let mut x = a.x.0.clone();
    x.extend(b.x.0.iter().cloned());
    Mor { g, h: h.clone(), w: (w, h.w.len()), x: (x, h.e.len()) }
}

fn perturb(r: &mut Rng, m: &mut Mor) -> &'static str {
    match r.below(16) {
        11 if !m.x.0.is_empty() => {
            m.x.0.pop();
            "x_domain_too_small"
        }
        12 if m.x.1 > 0 => {
            let v = r.below(m.x.1);
            m.x.0.push(v);
            "x_domain_too_large"
        }
        13 if m.w.1 > 0 => {
            let v = r.below(m.w.1);
            m.w.0.push(v);
            "w_domain_too_large"
        }
        14 => {
            // codomain declared one smaller while every entry still fits
            if m.w.1 > 0 && m.w.0.iter().all(|&v| v + 1 < m.w.1) {
                m.w.1 -= 1;
                "w_codomain_too_small"
            } else if m.x.1 > 0 && m.x.0.iter().all(|&v| v + 1 < m.x.1) {
                m.x.1 -= 1;
                "x_codomain_too_small"
            } else {
                "unperturbed"
            }
        }
        15 => {
            m.w.1 += 1;
            m.x.1 += 1;
            "both_codomains_too_large"
        }
        0 if !m.w.0.is_empty() && m.w.1 > 1 => {
            let k = r.below(m.w.0.len());
            m.w.0[k] = (m.w.0[k] + 1 + r.below(m.w.1 - 1)) % m.w.1;
            "w_entry_changed"
        }
        1 if !m.x.0.is_empty() && m.x.1 > 1 => {
            let k = r.below(m.x.0.len());
            m.x.0[k] = (m.x.0[k] + 1 + r.below(m.x.1 - 1)) % m.x.1;
            "x_entry_changed"
        }
        2 if !m.g.w.is_empty() => {
            let k = r.below(m.g.w.len());
            m.g.w[k] += 1;
            "node_label_changed"
        }
        3 if !m.g.e.is_empty() => {
            let k = r.below(m.g.e.len());
            m.g.e[k].l += 1;
            "edge_label_changed"
        }
        4 => {
            for e in m.g.e.iter_mut() {
                if e.s.len() >= 2 && e.s[0] != e.s[1] {
                    e.s.swap(0, 1);
                    return "sources_swapped";
                }
            }
            "unperturbed"
        }
        5 => {
            for e in m.g.e.iter_mut() {
                if e.t.len() >= 2 && e.t[0] != e.t[1] {
                    e.t.swap(0, 1);
                    return "targets_swapped";
                }
            }
            "unperturbed"
        }
        6 => {
            m.w.1 += 1;
            "w_codomain_too_large"
        }
        7 => {
            m.x.1 += 1;
            "x_codomain_too_large"
        }
        8 if !m.w.0.is_empty() => {
            m.w.0.pop();
            "w_domain_too_small"
        }
        9 => {
            // move the last source of one hyperedge to the front of the next one: the concatenated
            // incidence array is unchanged, only the per-hyperedge boundaries move
            for k in 0..m.g.e.len().saturating_sub(1) {
                if let Some(v) = m.g.e[k].s.pop() {
                    m.g.e[k + 1].s.insert(0, v);
                    return "source_segment_boundary_shifted";
                }
            }
            "unperturbed"
        }
        10 => {
            for k in 0..m.g.e.len().saturating_sub(1) {
                if let Some(v) = m.g.e[k].t.pop() {
                    m.g.e[k + 1].t.insert(0, v);
                    return "target_segment_boundary_shifted";
                }
            }
            "unperturbed"
        }
        _ => "unperturbed",
    }
}

impl C18 {
    /// A node map of more than a thousand entries on discrete hypergraphs, asked about repeatedly while its table is
    /// edited in place through the public fields (entry j := entry i, then restored), then dropped and rebuilt at the
    /// same size: each answer must be the one for the table as it is at that moment.
    fn large_map_history(&self, ctx: &mut Ctx, r: &mut Rng) {
        ctx.class("large_node_map_history");
        let n = r.range(1024, 1600);
        let extra = r.below(5);
        let hg = |w: Vec<u32>| POh::<u32, u64> { w, e: vec![], s: vec![], t: vec![] };
        let (g, h) = (hg(vec![0; n]), hg(vec![0; n + extra]));
        let mut w: Vec<usize> = r.perm(n + extra);
        w.truncate(n);
        let mut raw = HypergraphArrow { source: to_strict(&g).h, target: to_strict(&h).h, w: ff(w.clone(), n + extra), x: ff(vec![], 0) };
        let mut edits: Vec<(usize, usize)> = vec![];
        for step in 0..5 {
            let mono = injective(&raw.w.table.0);
            let input = || json!({"nodes": n, "codomain": n + extra, "edits_so_far(j := entry i)": edits, "step": step});
            if let Some(b) = lib(ctx, "is_monomorphism(unchecked)", "large_node_map_history", &input, || raw.is_monomorphism()) {
                ctx.check(b == mono, "is_monomorphism/both-maps-injective/value/large_node_map_history", || json!({"input": input(), "observed": b, "expected": mono}));
            }
            if step % 2 == 0 {
                let i = r.below(n);
                let j = (i + 1 + r.below(n - 1)) % n;
                raw.w.table.0[j] = raw.w.table.0[i];
                edits.push((i, j));
            } else {
                raw.w.table.0.copy_from_slice(&w);
                edits.clear();
            }
        }
        drop(raw);
        for collide in [true, false, true] {
            let mut w2 = w.clone();
            if collide {
                w2[n - 1] = w2[r.below(n - 1)];
            }
            let raw = HypergraphArrow { source: to_strict(&g).h, target: to_strict(&h).h, w: ff(w2.clone(), n + extra), x: ff(vec![], 0) };
            let input = || json!({"nodes": n, "codomain": n + extra, "rebuilt": true, "last_entry_collides": collide});
            if let Some(b) = lib(ctx, "is_monomorphism(unchecked)", "large_node_map_history", &input, || raw.is_monomorphism()) {
                ctx.check(b == !collide, "is_monomorphism/both-maps-injective/value/large_node_map_history", || json!({"input": input(), "observed": b, "expected": !collide}));
            }
        }
    }

    fn judge(&self, ctx: &mut Ctx, class: &str, m: &Mor) {
        let input = || json!({"source": show(&m.g), "target": show(&m.h), "w": m.w.0, "w_codomain": m.w.1, "x": m.x.0, "x_codomain": m.x.1});
        if m.h.e.len() >= 2 {
            ctx.nontrivial(m);
        }
        let (fail, w_cod_wrong, x_cod_wrong) = failing(m);
        let (lg, lh) = (to_strict(&m.g).h, to_strict(&m.h).h);
        // the monomorphism test has no naturality premise: ask it of every pair of maps, accepted or not
        {
            let raw = HypergraphArrow { source: to_strict(&m.g).h, target: to_strict(&m.h).h, w: ff(m.w.0.clone(), m.w.1), x: ff(m.x.0.clone(), m.x.1) };
            let mono = injective(&m.w.0) && injective(&m.x.0);
            if !fail.is_empty() {
                ctx.class(if mono { "injective_pair_that_is_no_morphism" } else { "non_injective_pair_that_is_no_morphism" });
            }
            if let Some(b) = lib(ctx, "is_monomorphism(unchecked)", class, &input, || raw.is_monomorphism()) {
                ctx.check(b == mono, &format!("is_monomorphism/both-maps-injective/value/{}", if fail.is_empty() { "natural" } else { "not_natural" }), || json!({"input": input(), "observed": b, "expected": mono}));
            }
        }
        let res = guard(|| HypergraphArrow::new(lg, lh, ff(m.w.0.clone(), m.w.1), ff(m.x.0.clone(), m.x.1)));
        let arrow = match must_return(ctx, "HypergraphArrow::new", class, res, input) {
            Some(a) => a,
            None => return,
        };
        ctx.evaluations += 1;
        match arrow {
            Ok(a) => {
                ctx.outcome("Ok");
                if !fail.is_empty() {
                    ctx.violation(&format!("HypergraphArrow::new/accepts-iff-natural/value/{}", class), json!({"input": input(), "observed": "Ok", "failing_conditions": format!("{:?}", fail)}));
                    return;
                }
                // monomorphism and convexity on accepted arrows
                let mono = injective(&m.w.0) && injective(&m.x.0);
                ctx.class(if mono { "monomorphism" } else { "non_injective_morphism" });
                if let Some(b) = lib(ctx, "is_monomorphism", class, &input, || a.is_monomorphism()) {
                    ctx.check(b == mono, &format!("is_monomorphism/both-maps-injective/value/{}", class), || json!({"input": input(), "observed": b, "expected": mono}));
                }
                let want = convex(m);
                ctx.class(if want { "convex" } else { "not_convex" });
                if mono && !want {
                    ctx.class("monomorphism_not_convex");
                }
                if !acyclic(&node_succs(&m.h)) {
                    ctx.class("convexity_on_cyclic_target");
                }
                if let Some(b) = lib(ctx, "is_convex_subgraph", class, &input, || a.is_convex_subgraph()) {
                    ctx.check(b == want, &format!("is_convex_subgraph/definition/value/{}", class), || json!({"input": input(), "observed": b, "expected": want}));
                }
            }
            Err(v) => {
                ctx.outcome("Err");
                if fail.is_empty() {
                    ctx.violation(&format!("HypergraphArrow::new/accepts-iff-natural/value/{}", class), json!({"input": input(), "observed": format!("Err({:?})", v), "expected": "Ok: every naturality condition holds"}));
                    return;
                }
                let (cond, ok) = match v {
                    InvalidHypergraphArrow::TypeMismatchW => ('W', fail.contains(&'W') && w_cod_wrong),
                    InvalidHypergraphArrow::NotNaturalW => ('W', fail.contains(&'W')),
                    InvalidHypergraphArrow::TypeMismatchX => ('X', fail.contains(&'X') && x_cod_wrong),
                    InvalidHypergraphArrow::NotNaturalX => ('X', fail.contains(&'X')),
                    InvalidHypergraphArrow::NotNaturalS => ('S', fail.contains(&'S')),
                    InvalidHypergraphArrow::NotNaturalT => ('T', fail.contains(&'T')),
                    #[allow(unreachable_patterns)]
                    _ => {
                        // a variant this monitor does not know: recorded, not judged
                        ctx.count("rejected:unknown_variant");
                        return;
                    }
                };
                ctx.count(&format!("rejected:{}", cond));
                ctx.count(&format!("variant:{:?}", v));
                ctx.check(ok, &format!("HypergraphArrow::new/rejection-names-a-failing-condition/value/{}", class), || {
                    json!({"input": input(), "observed": format!("{:?}", v), "actually_failing": format!("{:?}", fail)})
                });
            }
        }
        ctx.sample(class, || input());
    }
}

fn long_path(n: usize) -> P {
    POh { w: vec![0; n + 1], e: (0..n).map(|k| PEdge { l: (k % 3) as u64, s: vec![k], t: vec![k + 1] }).collect(), s: vec![], t: vec![] }
}

/// built once per process
fn corpus() -> &'static Vec<(&'static str, Mor)> {
    static C: std::sync::OnceLock<Vec<(&'static str, Mor)>> = std::sync::OnceLock::new();
    C.get_or_init(corpus_build)
}

fn corpus_build() -> Vec<(&'static str, Mor)> {
    let e = |l: u64, s: &[usize], t: &[usize]| PEdge { l, s: s.to_vec(), t: t.to_vec() };
    let hg = |w: Vec<u32>, e: Vec<PEdge<u64>>| POh { w, e, s: vec![], t: vec![] };
    // path 0 -a-> 1 -b-> 2 -c-> 3, plus shortcut 0 -d-> 3
    let path = hg(vec![0; 4], vec![e(0, &[0], &[1]), e(1, &[1], &[2]), e(2, &[2], &[3]), e(3, &[0], &[3])]);
    // leaves and re-enters through two outside edges: 0 -> 1 (outside) -> 2 (outside) -> 3, selected {0,3}
    let leave = hg(vec![0; 4], vec![e(0, &[0], &[1]), e(1, &[1], &[2]), e(2, &[2], &[3])]);
    let cyc = hg(vec![0; 3], vec![e(0, &[0], &[1]), e(1, &[1], &[0]), e(2, &[1], &[2]), e(2, &[1, 1], &[2, 2, 2, 2])]);
    vec![
        ("empty_subgraph", Mor { g: hg(vec![], vec![]), h: path.clone(), w: (vec![], 4), x: (vec![], 4) }),
        ("full_subgraph", Mor { g: path.clone(), h: path.clone(), w: (vec![0, 1, 2, 3], 4), x: (vec![0, 1, 2, 3], 4) }),
        ("shortcut_outside", Mor { g: hg(vec![0; 4], vec![e(0, &[0], &[1]), e(1, &[1], &[2]), e(2, &[2], &[3])]), h: path.clone(), w: (vec![0, 1, 2, 3], 4), x: (vec![0, 1, 2], 4) }),
        ("leaves_and_reenters_through_two_outside_edges", Mor { g: hg(vec![0, 0], vec![]), h: leave.clone(), w: (vec![0, 3], 4), x: (vec![], 3) }),
        ("nodes_only_downstream", Mor { g: hg(vec![0, 0], vec![]), h: leave.clone(), w: (vec![3, 2], 4), x: (vec![], 3) }),
        ("inside_cycle_with_high_multiplicity", Mor { g: hg(vec![0, 0], vec![e(0, &[0], &[1]), e(1, &[1], &[0])]), h: cyc.clone(), w: (vec![0, 1], 3), x: (vec![0, 1], 4) }),
        ("outside_cycle", Mor { g: hg(vec![0], vec![]), h: cyc.clone(), w: (vec![0], 3), x: (vec![], 4) }),
        ("target_empty", Mor { g: hg(vec![], vec![]), h: hg(vec![], vec![]), w: (vec![], 0), x: (vec![], 0) }),
        ("untouched_nodes", Mor { g: hg(vec![1], vec![]), h: hg(vec![0, 1, 0], vec![e(0, &[0], &[2])]), w: (vec![1], 3), x: (vec![], 1) }),
        // a path of 200 operations: its two end nodes only (the path between them is all outside), everything but
        // the middle operation (the path leaves and re-enters once, 100 steps in), and a prefix (convex)
        ("long_path_endpoints", {
            let h = long_path(200);
            Mor { g: hg(vec![0, 0], vec![]), h: h.clone(), w: (vec![0, 200], 201), x: (vec![], 200) }
        }),
        ("long_path_without_its_middle_operation", {
            let h = long_path(200);
            let keep: Vec<usize> = (0..200).filter(|&k| k != 100).collect();
            let g = hg(vec![0; 201], keep.iter().map(|&k| h.e[k].clone()).collect());
            Mor { g, h: h.clone(), w: ((0..201).collect(), 201), x: (keep, 200) }
        }),
        // a path of 1300 operations: end nodes only (every connecting path is longer than a thousand steps)
        ("very_long_path_endpoints", {
            let h = long_path(1300);
            Mor { g: hg(vec![0, 0], vec![]), h: h.clone(), w: (vec![0, 1300], 1301), x: (vec![], 1300) }
        }),
        // node maps of 300 entries on discrete hypergraphs: injective, and injective except that the last entry
        // collides with an early one
        ("large_node_map_injective", {
            let n = 300;
            Mor { g: hg(vec![0; n], vec![]), h: hg(vec![0; n + 5], vec![]), w: ((0..n).rev().collect(), n + 5), x: (vec![], 0) }
        }),
        ("large_node_map_last_entry_collides", {
            let n = 300;
            let mut w: Vec<usize> = (0..n).collect();
            w[n - 1] = 3;
            Mor { g: hg(vec![0; n], vec![]), h: hg(vec![0; n + 5], vec![]), w: (w, n + 5), x: (vec![], 0) }
        }),
        ("long_path_prefix", {
            let h = long_path(200);
            let g = hg(vec![0; 121], (0..120).map(|k| h.e[k].clone()).collect());
            Mor { g, h: h.clone(), w: ((0..121).collect(), 201), x: ((0..120).collect(), 200) }
        }),
    ]
}

impl Monitor for C18 {
    fn id(&self) -> &'static str {
        "C18"
    }
    fn rule(&self) -> &'static str {
        "cases: hostile corpus (empty subgraph, full subgraph, shortcut through an outside edge, path leaving and re-entering through two outside edges, selected nodes downstream only, \
         inside cycle next to incidences of multiplicity 4, node on an outside cycle, empty target, nodes untouched by edges) then seeded (a) natural arrows: inclusions of sub-hypergraphs \
         with shuffled node/edge order and non-injective folds of two copies, (b) each single perturbation of a natural arrow (one entry of either map, one node or edge label, two swapped \
         sources or targets, a per-hyperedge segment boundary shifted with the flat incidence array unchanged, codomain of either map off by one, domain of the node map too small), (c) random junk maps. Oracle: the set of naturality conditions {W,X,S,T} that fail on the \
         plain model; Ok iff the set is empty; an Err must name a member of the set (type-mismatch variants only when the codomain really is wrong); monomorphism = both tables injective; \
         convexity = monomorphism and exhaustive search over (node, used-an-outside-edge) states finds no image node reachable from an image node through an outside edge. \
         non-trivial = target with >=2 hyperedges; distinct = hash of (source, target, maps). Also: is_monomorphism asked of every pair of maps (through the public fields, accepted or not), five more ways of mistyping a map (either domain too small / too large, codomain too small, both codomains), paths of 200 operations for the convexity search; floors per perturbation class; a map whose declared codomain is not the target's node / hyperedge set is mistyped and must be rejected. Round 8: node maps of 1024-1600 entries asked about five times while the table is edited in place through the public fields (entry j := entry i, then restored), then dropped and rebuilt three times at the same size with / without a collision in the last entry."
    }
    fn corpus_len(&self) -> u64 {
        corpus().len() as u64
    }
    fn floors(&self) -> Vec<(&'static str, u64)> {
        vec![
            ("outcome:Ok", 300),
            ("outcome:Err", 300),
            ("rejected:W", 30),
            ("rejected:X", 30),
            ("rejected:S", 30),
            ("rejected:T", 30),
            ("class:monomorphism", 200),
            ("class:non_injective_morphism", 50),
            ("class:convex", 100),
            ("class:monomorphism_not_convex", 100),
            ("class:convexity_on_cyclic_target", 100),
            ("class:empty_subgraph", 1),
            ("class:full_subgraph", 1),
            ("class:leaves_and_reenters_through_two_outside_edges", 1),
            ("class:source_segment_boundary_shifted", 30),
            ("class:target_segment_boundary_shifted", 30),
            ("class:w_entry_changed", 30),
            ("class:x_entry_changed", 30),
            ("class:node_label_changed", 30),
            ("class:edge_label_changed", 30),
            ("class:sources_swapped", 30),
            ("class:targets_swapped", 30),
            ("class:w_codomain_too_large", 30),
            ("class:x_codomain_too_large", 30),
            ("class:w_domain_too_small", 30),
            ("class:x_domain_too_small", 30),
            ("class:x_domain_too_large", 30),
            ("class:w_domain_too_large", 30),
            ("class:w_codomain_too_small", 20),
            ("class:both_codomains_too_large", 30),
            ("class:injective_pair_that_is_no_morphism", 100),
            ("class:non_injective_pair_that_is_no_morphism", 100),
            ("class:long_path_endpoints", 1),
            ("class:long_path_without_its_middle_operation", 1),
            ("class:long_path_prefix", 1),
            ("class:very_long_path_endpoints", 1),
            ("class:large_node_map_injective", 1),
            ("class:large_node_map_last_entry_collides", 1),

        ]
    }
    fn run_case(&self, idx: u64, r: &mut Rng, ctx: &mut Ctx) {
        let c = corpus();
        if (idx as usize) < c.len() {
            let (class, m) = &c[idx as usize];
            ctx.class(class);
            self.judge(ctx, class, m);
            return;
        }
        if r.chance(1, 1500) {
            self.large_map_history(ctx, r);
            return;
        }
        let params = match r.below(4) {
            0 => OhParams::tiny(),
            1 => OhParams::dense(),
            2 => OhParams { max_nodes: 7, max_edges: 7, max_arity: 2, max_iface: 0, node_labels: 1, edge_labels: 1 },
            _ => OhParams::small(),
        };
        let h = hyper(r, &params);
        match r.below(10) {
            0..=3 => {
                let all = r.chance(1, 10);
                let none = r.chance(1, 20);
                let m = inclusion(r, &h, all, none);
                self.judge(ctx, "inclusion", &m);
            }
            4 => {
                let m = fold(r, &h);
                self.judge(ctx, "fold", &m);
            }
            5..=7 => {
                let mut m = if r.chance(1, 4) { fold(r, &h) } else { inclusion(r, &h, false, false) };
                let what = perturb(r, &mut m);
                ctx.class(what);
                self.judge(ctx, "perturbed", &m);
            }
            _ => {
                let g = hyper(r, &OhParams::tiny());
                let w = if h.w.is_empty() { vec![] } else { r.vec_below(g.w.len(), h.w.len()) };
                let x = if h.e.is_empty() { vec![] } else { r.vec_below(g.e.len(), h.e.len()) };
                let m = Mor { g, h: h.clone(), w: (w, h.w.len()), x: (x, h.e.len()) };
                self.judge(ctx, "junk", &m);
            }
        }
    }
}
