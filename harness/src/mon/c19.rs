//! C19 Var-built terms mean the expression written; forgetting copies keeps meaning.

use super::common::*;
use crate::conv::*;
use crate::ctx::*;
use crate::evalx::*;
use crate::model::*;
use crate::rng::{mix, Rng};
use open_hypergraphs::category::Arrow;
use open_hypergraphs::lax::var::forget::{forget, forget_monogamous};
use open_hypergraphs::lax::var::{self, HasVar, Var};
use serde_json::json;
use std::cell::RefCell;

pub struct C19;

#[derive(Clone, Debug, PartialEq, Eq, Hash, PartialOrd, Ord)]
pub enum VOp {
    Var,
    Add,
    Sub,
    Mul,
    Div,
    Neg,
    Not,
    Xor,
    And,
    Or,
    Shl,
    Shr,
    /// operation created through `operation` / `fn_operation`, or a plain operation of an
    /// arbitrary lax term: (id, number of outputs)
    Named(u32, u8),
}

impl HasVar for VOp {
    fn var() -> Self {
        VOp::Var
    }
}

/// deliberately not symmetric in its arguments: swapping the operand types changes the result type
fn res_label(l: u32, r: u32) -> u32 {
    (2 * l + r + 1) % 3
}

macro_rules! has_bin {
    ($tr:ident, $f:ident, $v:ident) => {
        impl var::$tr<u32, VOp> for VOp {
            fn $f(l: u32, r: u32) -> (u32, VOp) {
                (res_label(l, r), VOp::$v)
            }
        }
    };
}
has_bin!(HasAdd, add, Add);
has_bin!(HasSub, sub, Sub);
has_bin!(HasMul, mul, Mul);
has_bin!(HasDiv, div, Div);
has_bin!(HasBitXor, bitxor, Xor);
has_bin!(HasBitAnd, bitand, And);
has_bin!(HasBitOr, bitor, Or);
has_bin!(HasShl, shl, Shl);
has_bin!(HasShr, shr, Shr);
impl var::HasNeg<u32, VOp> for VOp {
    fn neg(l: u32) -> (u32, VOp) {
        ((l + 2) % 3, VOp::Neg)
    }
}
impl var::HasNot<u32, VOp> for VOp {
    fn not(l: u32) -> (u32, VOp) {
        (l, VOp::Not)
    }
}

fn vop_apply(op: &VOp, x: &[u64], nout: usize) -> Vec<u64> {
    use VOp::*;
    match (op, x.len()) {
        (Var, 1) => vec![x[0]; nout],
        (Add, 2) => vec![x[0].wrapping_add(x[1])],
        (Sub, 2) => vec![x[0].wrapping_sub(x[1])],
        (Mul, 2) => vec![x[0].wrapping_mul(x[1])],
        (Div, 2) => vec![x[0] / (x[1] | 1)],
        (Neg, 1) => vec![x[0].wrapping_neg()],
        (Not, 1) => vec![!x[0]],
        (Xor, 2) => vec![x[0] ^ x[1]],
        (And, 2) => vec![x[0] & x[1]],
        (Or, 2) => vec![x[0] | x[1]],
        (Shl, 2) => vec![x[0] << (x[1] % 64)],
        (Shr, 2) => vec![x[0] >> (x[1] % 64)],
        (Named(id, _), _) => (0..nout as u64)
            .map(|j| {
                let mut h = mix(*id as u64 ^ (j << 40));
                for (k, v) in x.iter().enumerate() {
                    h = mix(h ^ v.wrapping_mul(2 * k as u64 + 3));
                }
                h
            })
            .collect(),
        // var hyperedge that is not 1 -> n: "copy" of the first source if any (only reached for
        // unjudged shapes)
        (Var, _) => vec![x.first().cloned().unwrap_or(0); nout],
        _ => vec![0; nout],
    }
}

#[derive(Clone, Debug, Hash, PartialEq, Eq)]
enum Stmt {
    Bin(u8, usize, usize),
    Un(u8, usize),
    Op { id: u32, args: Vec<usize>, out_labels: Vec<u32> },
    FnOp { id: u32, args: Vec<usize>, out_label: u32 },
}

#[derive(Clone, Debug, Hash, PartialEq, Eq)]
struct Prog {
    input_labels: Vec<u32>,
    stmts: Vec<Stmt>,
    outputs: Vec<usize>,
    leak: bool,
}

const BIN: [VOp; 9] = [VOp::Add, VOp::Sub, VOp::Mul, VOp::Div, VOp::Xor, VOp::And, VOp::Or, VOp::Shl, VOp::Shr];

fn gen_prog(r: &mut Rng, max_stmts: usize) -> Prog {
    let n_in = r.small(4);
    let input_labels: Vec<u32> = (0..n_in).map(|_| r.below(3) as u32).collect();
    let mut nvars = n_in;
    let mut stmts = vec![];
    let mut next_id = 1;
    for _ in 0..r.small(max_stmts) {
        let k = r.below(10);
        if nvars == 0 || k == 9 {
            // nullary constant-like operation
            stmts.push(Stmt::FnOp { id: next_id, args: vec![], out_label: r.below(3) as u32 });
            next_id += 1;
            nvars += 1;
        } else if k < 5 {
            stmts.push(Stmt::Bin(r.below(9) as u8, r.below(nvars), r.below(nvars)));
            nvars += 1;
        } else if k < 7 {
            stmts.push(Stmt::Un(r.below(2) as u8, r.below(nvars)));
            nvars += 1;
        } else if k == 7 {
            let a = r.small(3);
            let args = r.vec_below(a, nvars);
            let nout = r.small(3);
            let out_labels: Vec<u32> = (0..nout).map(|_| r.below(3) as u32).collect();
            stmts.push(Stmt::Op { id: next_id, args, out_labels });
            next_id += 1;
            nvars += nout;
        } else {
            let a = r.small(3);
            let args = r.vec_below(a, nvars);
            stmts.push(Stmt::FnOp { id: next_id, args, out_label: r.below(3) as u32 });
            next_id += 1;
            nvars += 1;
        }
    }
    let outputs = if nvars == 0 { vec![] } else { let k = r.small(4); r.vec_below(k, nvars) };
    Prog { input_labels, stmts, outputs, leak: false }
}

/// direct evaluation of the expression DAG; returns (outputs, per applied operator (label, inputs), var labels)
fn direct(p: &Prog, inputs: &[u64]) -> (Vec<u64>, Vec<(VOp, Vec<u64>)>, Vec<u32>) {
    let (a, b, c, _) = direct_typed(p, inputs);
    (a, b, c)
}

/// as `direct`, plus for every applied operator its (label, operand types, result types)
fn direct_typed(p: &Prog, inputs: &[u64]) -> (Vec<u64>, Vec<(VOp, Vec<u64>)>, Vec<u32>, Vec<(VOp, Vec<u32>, Vec<u32>)>) {
    let mut vals: Vec<u64> = inputs.to_vec();
    let mut labels: Vec<u32> = p.input_labels.clone();
    let mut applied = vec![];
    let mut typed = vec![];
    for s in &p.stmts {
        match s {
            Stmt::Bin(k, a, b) => {
                let op = BIN[*k as usize].clone();
                let x = vec![vals[*a], vals[*b]];
                let y = vop_apply(&op, &x, 1);
                typed.push((op.clone(), vec![labels[*a], labels[*b]], vec![res_label(labels[*a], labels[*b])]));
                applied.push((op, x));
                vals.push(y[0]);
                labels.push(res_label(labels[*a], labels[*b]));
            }
            Stmt::Un(k, a) => {
                let op = if *k == 0 { VOp::Neg } else { VOp::Not };
                let x = vec![vals[*a]];
                let y = vop_apply(&op, &x, 1);
                let rl = if *k == 0 { (labels[*a] + 2) % 3 } else { labels[*a] };
                typed.push((op.clone(), vec![labels[*a]], vec![rl]));
                labels.push(rl);
                applied.push((op, x));
                vals.push(y[0]);
            }
            Stmt::Op { id, args, out_labels } => {
                let op = VOp::Named(*id, out_labels.len() as u8);
                let x: Vec<u64> = args.iter().map(|&a| vals[a]).collect();
                let y = vop_apply(&op, &x, out_labels.len());
                typed.push((op.clone(), args.iter().map(|&a| labels[a]).collect(), out_labels.clone()));
                applied.push((op, x));
                vals.extend(y);
                labels.extend(out_labels.iter().cloned());
            }
            Stmt::FnOp { id, args, out_label } => {
                let op = VOp::Named(*id, 1);
                let x: Vec<u64> = args.iter().map(|&a| vals[a]).collect();
                let y = vop_apply(&op, &x, 1);
                typed.push((op.clone(), args.iter().map(|&a| labels[a]).collect(), vec![*out_label]));
                applied.push((op, x));
                vals.push(y[0]);
                labels.push(*out_label);
            }
        }
    }
    (p.outputs.iter().map(|&o| vals[o]).collect(), applied, labels, typed)
}

type Term = LOh<u32, VOp>;

fn run_build(p: &Prog) -> Result<var::BuildResult<u32, VOp>, PanicInfo> {
    let leaked: RefCell<Vec<Var<u32, VOp>>> = RefCell::new(vec![]);
    let r = guard(|| {
        var::build(|state| {
            let mut vars: Vec<Var<u32, VOp>> = p.input_labels.iter().map(|&l| Var::new(state.clone(), l)).collect();
            let inputs = vars.clone();
            for s in &p.stmts {
                match s {
                    Stmt::Bin(k, a, b) => {
                        let (x, y) = (vars[*a].clone(), vars[*b].clone());
                        let v = match k {
                            0 => x + y,
                            1 => x - y,
                            2 => x * y,
                            3 => x / y,
                            4 => x ^ y,
                            5 => x & y,
                            6 => x | y,
                            7 => x << y,
                            _ => x >> y,
                        };
                        vars.push(v);
                    }
                    Stmt::Un(k, a) => {
                        let x = vars[*a].clone();
                        vars.push(if *k == 0 { -x } else { !x });
                    }
                    Stmt::Op { id, args, out_labels } => {
                        let xs: Vec<Var<u32, VOp>> = args.iter().map(|&a| vars[a].clone()).collect();
                        let vs = var::operation(state, &xs, out_labels.clone(), VOp::Named(*id, out_labels.len() as u8));
                        vars.extend(vs);
                    }
                    Stmt::FnOp { id, args, out_label } => {
                        let xs: Vec<Var<u32, VOp>> = args.iter().map(|&a| vars[a].clone()).collect();
                        vars.push(var::fn_operation(state, &xs, *out_label, VOp::Named(*id, 1)));
                    }
                }
            }
            if p.leak && !vars.is_empty() {
                leaked.borrow_mut().push(vars[vars.len() - 1].clone());
            }
            let outs = p.outputs.iter().map(|&o| vars[o].clone()).collect();
            (inputs, outs)
        })
    });
    drop(leaked);
    r
}

/// relabel for evaluation: every edge gets (op, unique id, number of targets)
type ELabel = (VOp, u32, u8);
fn eval_form(p: &POh<u32, VOp>) -> POh<u32, ELabel> {
    POh {
        w: p.w.clone(),
        e: p.e.iter().enumerate().map(|(k, e)| PEdge { l: (e.l.clone(), k as u32, e.t.len() as u8), s: e.s.clone(), t: e.t.clone() }).collect(),
        s: p.s.clone(),
        t: p.t.clone(),
    }
}
fn eapply(l: &ELabel, x: &[u64]) -> Vec<u64> {
    vop_apply(&l.0, x, l.2 as usize)
}

/// does the model forget this var hyperedge?
fn forgettable(l: &VOp, st: &[u32], tt: &[u32], monogamous_only: bool) -> bool {
    if *l != VOp::Var {
        return false;
    }
    if monogamous_only && (st.len() != 1 || tt.len() != 1) {
        return false;
    }
    let mut all = st.iter().chain(tt.iter());
    match all.next() {
        None => true,
        Some(first) => all.all(|x| x == first),
    }
}

fn model_forget(p: &POh<u32, VOp>, monogamous_only: bool) -> Result<POh<u32, VOp>, SubstErr> {
    substitute(
        p,
        &|o: &u32| vec![*o],
        &|l: &VOp, st: &[u32], tt: &[u32]| {
            if forgettable(l, st, tt, monogamous_only) {
                if st.is_empty() && tt.is_empty() {
                    POh::empty()
                } else {
                    let lab = if st.is_empty() { tt[0] } else { st[0] };
                    POh::spider(vec![0; st.len()], vec![0; tt.len()], vec![lab])
                }
            } else {
                POh::singleton(l.clone(), st.to_vec(), tt.to_vec())
            }
        },
    )
    .map(|s| s.result)
}

impl C19 {
    fn judge_forget(&self, ctx: &mut Ctx, class: &str, term: &Term, evaluate: bool, r: &mut Rng) {
        let plain = from_lax_raw(term);
        let input = || json!({"term": show_lax(&plain)});
        let strict_in = match plain.strict() {
            Ok((s, _)) => s,
            Err(_) => return, // label-conflicting unifications: outside the precondition
        };
        // classes of var hyperedges present
        for e in &strict_in.e {
            if e.l == VOp::Var {
                let st: Vec<u32> = e.s.iter().map(|&v| strict_in.w[v]).collect();
                let tt: Vec<u32> = e.t.iter().map(|&v| strict_in.w[v]).collect();
                let uni = forgettable(&e.l, &st, &tt, false);
                ctx.class(if uni { "var_edge_uniform" } else { "var_edge_non_uniform" });
                if st.is_empty() && tt.len() >= 2 && !uni {
                    ctx.class("var_edge_no_sources_differently_labelled_targets");
                }
                if st.is_empty() && tt.is_empty() {
                    ctx.class("var_edge_no_legs");
                }
                if !(st.len() == 1 && tt.len() == 1) {
                    ctx.class("var_edge_not_1_to_1");
                }
            }
        }
        // the functor value itself through the native lax path (defined for quotient-free terms only)
        if plain.q.is_empty() {
            use open_hypergraphs::lax::functor::try_define_map_arrow;
            use open_hypergraphs::lax::var::forget::Forget;
            if let Some(o) = must_return(ctx, "try_define_map_arrow(Forget)", class, guard(|| try_define_map_arrow(&Forget, term)), input) {
                ctx.check(o.is_some(), &format!("try_define_map_arrow(Forget)/accepts-quotient-free/value/{}", class), || json!({"input": input()}));
                if let (Some(img), Ok(want)) = (o, model_forget(&strict_in, false)) {
                    if let Some(pl) = walk_lax(ctx, "try_define_map_arrow(Forget)", class, &img, &input) {
                        match pl.strict() {
                            Ok((got, _)) => {
                                if ctx.check(got.src_type() == strict_in.src_type() && got.tgt_type() == strict_in.tgt_type(), &format!("try_define_map_arrow(Forget)/preserves-type/value/{}", class), || json!({"input": input(), "observed": show(&got)})) {
                                    expect_iso(ctx, "try_define_map_arrow(Forget)", "replaces-exactly-uniform-var-edges", class, &got, &want, &input);
                                }
                            }
                            Err(_) => {
                                ctx.check(false, &format!("try_define_map_arrow(Forget)/result-quotientable/value/{}", class), || json!({"input": input()}));
                            }
                        }
                    }
                }
            }
        }
        for (api, mono) in [("forget", false), ("forget_monogamous", true)] {
            let res = if mono { guard(|| forget_monogamous(term)) } else { guard(|| forget(term)) };
            let out = match must_return(ctx, api, class, res, input) {
                Some(o) => o,
                None => continue,
            };
            ctx.outcome("forget_returned");
            let want = match model_forget(&strict_in, mono) {
                Ok(w) => w,
                Err(e) => {
                    ctx.inconclusive(&format!("model forget failed: {:?}", e));
                    continue;
                }
            };
            let got_lax = match walk_lax(ctx, api, class, &out, &input) {
                Some(g) => g,
                None => continue,
            };
            let got = match got_lax.strict() {
                Ok((s, _)) => s,
                Err(_) => {
                    ctx.check(false, &format!("{}/result-quotientable/value/{}", api, class), || json!({"input": input(), "observed": show_lax(&got_lax)}));
                    continue;
                }
            };
            // same type as the original term
            let ty_ok = got.src_type() == strict_in.src_type() && got.tgt_type() == strict_in.tgt_type();
            ctx.check(ty_ok, &format!("{}/preserves-type/value/{}", api, class), || {
                json!({"input": input(), "observed": format!("{:?} -> {:?}", got.src_type(), got.tgt_type()), "expected": format!("{:?} -> {:?}", strict_in.src_type(), strict_in.tgt_type())})
            });
            if ty_ok {
                // the 1->1-only variant: whether it also drops variable hyperedges without any incident node ("or the
                // empty diagram" in its documentation) is left open -- either model is accepted
                let has_legless = strict_in.e.iter().any(|e| e.l == VOp::Var && e.s.is_empty() && e.t.is_empty());
                if mono && has_legless {
                    let mut alt = want.clone();
                    alt.e.retain(|e| !(e.l == VOp::Var && e.s.is_empty() && e.t.is_empty()));
                    let (r1, _) = crate::iso::iso_budget(&got, &want, crate::iso::DEFAULT_BUDGET);
                    let (r2, _) = crate::iso::iso_budget(&got, &alt, crate::iso::DEFAULT_BUDGET);
                    ctx.count("iso:searches");
                    let ok = matches!(r1, crate::iso::Iso::Yes) || matches!(r2, crate::iso::Iso::Yes);
                    let budget = matches!(r1, crate::iso::Iso::Budget) || matches!(r2, crate::iso::Iso::Budget);
                    if budget && !ok {
                        ctx.count("iso:budget_exhausted");
                    } else {
                        ctx.check(ok, &format!("{}/replaces-exactly-uniform-var-edges/value/{}", api, class), || json!({"input": input(), "observed": show(&got), "expected_up_to_iso": show(&want), "or": show(&alt)}));
                    }
                } else {
                    expect_iso(ctx, api, "replaces-exactly-uniform-var-edges", class, &got, &want, &input);
                }
            }
            if evaluate {
                // same function as the original with var hyperedges read as copies
                let inputs: Vec<u64> = (0..strict_in.s.len()).map(|_| r.next()).collect();
                let e0 = eval_form(&strict_in);
                let e1 = eval_form(&got);
                let r0 = ref_eval(&e0, &inputs, &|l, x| eapply(l, x));
                let run1 = run_eval(&to_strict(&e1), inputs.clone(), &|l, x| eapply(l, x));
                ctx.api("eval(forgotten)");
                if let (Some(want_out), false, false) = (&r0.out, r0.multi_write, r0.unwritten_read) {
                    let same = matches!(&run1.result, Ok(Some(v)) if v == want_out);
                    ctx.check(same, &format!("{}/same-function/value/{}", api, class), || {
                        json!({"input": input(), "inputs": inputs, "forgotten": show(&got), "observed": format!("{:?}", run1.result.as_ref().map_err(|e| e.msg.clone())), "expected": want_out})
                    });
                }
            }
        }
    }

    fn judge_build(&self, ctx: &mut Ctx, class: &str, p: &Prog, r: &mut Rng) {
        let input = || json!({"program": format!("{:?}", p)});
        let res = run_build(p);
        let built = match must_return(ctx, "build", class, res, input) {
            Some(b) => b,
            None => return,
        };
        if p.leak && !(p.input_labels.is_empty() && p.stmts.is_empty()) {
            ctx.class("leaked_handle");
            // the statement: building fails *only when* a handle outlives the builder. Failing here is therefore
            // allowed (and is what today's builder does); succeeding would be too and is judged like any other build
            ctx.count(if built.is_err() { "observed:leak_makes_build_fail" } else { "observed:leak_tolerated" });
        }
        if p.leak && !(p.input_labels.is_empty() && p.stmts.is_empty()) && built.is_err() {
            // the state handed back must still be the term that was built (one hyperedge per applied operator)
            if let Err(state) = built {
                let plain = from_lax_raw(&state.borrow());
                let inputs: Vec<u64> = vec![0; p.input_labels.len()];
                let (_, applied, _) = direct(p, &inputs);
                let mut a: Vec<VOp> = plain.e.iter().map(|e| e.l.clone()).filter(|l| *l != VOp::Var).collect();
                let mut b: Vec<VOp> = applied.iter().map(|(o, _)| o.clone()).collect();
                a.sort();
                b.sort();
                ctx.check(a == b, "build/failure-hands-back-the-shared-state/value/leaked", || {
                    json!({"input": input(), "observed_state": show_lax(&plain), "expected_operators": format!("{:?}", b)})
                });
            }
            return;
        }
        let term = match built {
            Ok(t) => t,
            Err(_) => {
                ctx.check(false, "build/fails-iff-handle-leaked/value/not_leaked", || json!({"input": input(), "observed": "Err", "expected": "Ok"}));
                return;
            }
        };
        ctx.outcome("build_ok");
        let plain = match walk_lax(ctx, "build", class, &term, &input) {
            Some(pl) => pl,
            None => return,
        };
        let inputs: Vec<u64> = (0..p.input_labels.len()).map(|_| if r.chance(1, 4) { r.below(5) as u64 } else { r.next() }).collect();
        let (want_out, applied, labels) = direct(p, &inputs);
        if p.stmts.iter().any(|s| match s { Stmt::Bin(_, a, b) => a == b, _ => false }) || {
            let mut uses = vec![0; labels.len()];
            for s in &p.stmts {
                match s {
                    Stmt::Bin(_, a, b) => { uses[*a] += 1; uses[*b] += 1; }
                    Stmt::Un(_, a) => uses[*a] += 1,
                    Stmt::Op { args, .. } | Stmt::FnOp { args, .. } => for a in args { uses[*a] += 1 },
                }
            }
            for o in &p.outputs { uses[*o] += 1; }
            uses.iter().any(|&u| u >= 2)
        } {
            ctx.class("shared_variable");
            ctx.nontrivial(p);
        }
        // one non-var hyperedge per applied operator, one var hyperedge per variable
        let nonvar: Vec<&VOp> = plain.e.iter().map(|e| &e.l).filter(|l| **l != VOp::Var).collect();
        let mut a: Vec<VOp> = nonvar.into_iter().cloned().collect();
        let mut b: Vec<VOp> = applied.iter().map(|(o, _)| o.clone()).collect();
        a.sort();
        b.sort();
        ctx.check(a == b, "build/one-hyperedge-per-operator/value/any", || json!({"input": input(), "observed": format!("{:?}", a), "expected": format!("{:?}", b)}));
        // (how many variable-labelled hyperedges the builder uses is its own business: not judged)
        let nvar = plain.e.iter().filter(|e| e.l == VOp::Var).count();
        ctx.count_n("observed:var_hyperedges", nvar as u64);
        // interfaces: declared inputs and outputs, in order
        let src_ty: Vec<u32> = Arrow::source(&term);
        let tgt_ty: Vec<u32> = Arrow::target(&term);
        let want_tgt: Vec<u32> = p.outputs.iter().map(|&o| labels[o]).collect();
        ctx.check(src_ty == p.input_labels && tgt_ty == want_tgt, "build/interfaces-in-order/value/any", || {
            json!({"input": input(), "observed": format!("{:?} -> {:?}", src_ty, tgt_ty), "expected": format!("{:?} -> {:?}", p.input_labels, want_tgt)})
        });
        // the term as a diagram: pending unifications (if the builder leaves any) applied
        let strict_term = match plain.strict() {
            Ok((s, _)) => s,
            Err(_) => {
                ctx.check(false, "build/term-can-be-quotiented/value/any", || json!({"input": input(), "term": show_lax(&plain)}));
                return;
            }
        };
        // every operator's hyperedge sits on nodes of its operand types and of its result types, in order
        {
            let (_, _, _, typed) = direct_typed(p, &inputs);
            let mut got: Vec<(VOp, Vec<u32>, Vec<u32>)> = strict_term.e.iter().filter(|e| e.l != VOp::Var)
                .map(|e| (e.l.clone(), e.s.iter().map(|&v| strict_term.w[v]).collect(), e.t.iter().map(|&v| strict_term.w[v]).collect())).collect();
            let mut want_typed = typed;
            got.sort();
            want_typed.sort();
            ctx.check(got == want_typed, "build/operators-typed-by-their-operands/value/any", || json!({"input": input(), "observed": format!("{:?}", got), "expected": format!("{:?}", want_typed)}));
        }
        // meaning: evaluate with var hyperedges read as copies
        let ef = eval_form(&strict_term);
        let run = run_eval(&to_strict(&ef), inputs.clone(), &|l, x| eapply(l, x));
        ctx.api("eval(built)");
        let ok = matches!(&run.result, Ok(Some(v)) if *v == want_out);
        ctx.check(ok, "build/means-the-expression/value/any", || {
            json!({"input": input(), "inputs": inputs, "term": show_lax(&plain), "observed": format!("{:?}", run.result.as_ref().map_err(|e| e.msg.clone())), "expected": want_out})
        });
        // the callback log holds exactly the applied operators with the values the expression gives them
        let mut seen: Vec<(VOp, Vec<u64>)> = run.batches.iter().flatten().filter(|(l, _)| l.0 != VOp::Var).map(|(l, x)| (l.0.clone(), x.clone())).collect();
        let mut want_seen = applied.clone();
        seen.sort();
        want_seen.sort();
        ctx.count_n("events:callback_operations_checked", seen.len() as u64);
        if run.result.is_ok() {
            ctx.check(seen == want_seen, "build/every-use-reads-the-produced-value/value/any", || json!({"input": input(), "observed": format!("{:?}", seen), "expected": format!("{:?}", want_seen)}));
        }
        // forgetting on the built term
        self.judge_forget(ctx, "var_built", &term, true, r);
        ctx.sample(class, || json!({"program": format!("{:?}", p), "term": show_lax(&plain)}));
    }

    /// arbitrary lax term with var-labelled hyperedges of any arity and label mix
    pub fn arbitrary_term(&self, r: &mut Rng) -> PLax<u32, VOp> {
        let nlab = r.range(1, 3);
        let n = r.range(1, 6);
        let w: Vec<u32> = (0..n).map(|_| r.below(nlab) as u32).collect();
        let m = r.small(4);
        let mut e = vec![];
        for k in 0..m {
            let (a, b) = (r.small(3), r.small(3));
            let is_var = r.chance(2, 3);
            let (s, t) = if is_var && r.chance(1, 2) {
                // uniform on purpose
                let l = w[r.below(n)];
                let c: Vec<usize> = (0..n).filter(|&i| w[i] == l).collect();
                ((0..a).map(|_| *r.pick(&c)).collect(), (0..b).map(|_| *r.pick(&c)).collect())
            } else {
                (r.vec_below(a, n), r.vec_below(b, n))
            };
            e.push(PEdge { l: if is_var { VOp::Var } else { VOp::Named(k as u32 + 1, b as u8) }, s, t });
        }
        let (ks, kt) = (r.small(3), r.small(3));
        let s = r.vec_below(ks, n);
        let t = r.vec_below(kt, n);
        let mut q = vec![];
        if r.chance(1, 4) {
            for _ in 0..r.small(2) {
                let a = r.below(n);
                let c: Vec<usize> = (0..n).filter(|&i| w[i] == w[a]).collect();
                q.push((a, *r.pick(&c)));
            }
        }
        PLax { w, e, s, t, q }
    }
}

fn corpus_terms() -> Vec<(&'static str, PLax<u32, VOp>)> {
    let v = |s: &[usize], t: &[usize]| PEdge { l: VOp::Var, s: s.to_vec(), t: t.to_vec() };
    vec![
        ("var_no_sources_targets_differ", PLax { w: vec![1, 2], e: vec![v(&[], &[0, 1])], s: vec![], t: vec![0, 1], q: vec![] }),
        ("var_no_sources_targets_equal", PLax { w: vec![1, 1], e: vec![v(&[], &[0, 1])], s: vec![], t: vec![0, 1], q: vec![] }),
        ("var_no_legs", PLax { w: vec![0], e: vec![v(&[], &[])], s: vec![0], t: vec![0], q: vec![] }),
        ("var_sources_only_differ", PLax { w: vec![0, 1], e: vec![v(&[0, 1], &[])], s: vec![0, 1], t: vec![], q: vec![] }),
        ("var_1_to_1_uniform", PLax { w: vec![2, 2], e: vec![v(&[0], &[1])], s: vec![0], t: vec![1], q: vec![] }),
        ("var_1_to_1_mixed", PLax { w: vec![2, 0], e: vec![v(&[0], &[1])], s: vec![0], t: vec![1], q: vec![] }),
        ("var_2_to_3_uniform_shared_nodes", PLax { w: vec![1, 1, 1], e: vec![v(&[0, 0], &[1, 2, 1])], s: vec![0], t: vec![2], q: vec![] }),
        ("var_first_target_differs_only", PLax { w: vec![0, 1, 1], e: vec![v(&[], &[0, 1, 2])], s: vec![], t: vec![0, 1, 2], q: vec![] }),
        ("var_source_differs_from_targets", PLax { w: vec![0, 1, 1], e: vec![v(&[0], &[1, 2])], s: vec![0], t: vec![1, 2], q: vec![] }),
    ]
}

impl Monitor for C19 {
    fn id(&self) -> &'static str {
        "C19"
    }
    fn uses_iso(&self) -> bool {
        true
    }
    fn rule(&self) -> &'static str {
        "cases: hostile corpus of lax terms with variable-labelled hyperedges (no sources + differently labelled targets, no legs, sources only, 1->1 uniform/mixed, 2->3 \
         with shared nodes, first target differing, source differing from targets), then (a) seeded straight-line programs over Var::new, the operator overloads (+ - * / ^ & | \
         << >> unary - !), operation and fn_operation with arbitrary sharing, variables used 0-4 times, multi-output operations, and a handle-leaking variant; (b) arbitrary lax \
         terms with var hyperedges of arity m->n (m,n in 0..3) over 1-3 node labels, sometimes with label-consistent pending unifications. Oracle for build: Err only if a handle \
         leaked (then the state handed back still holds the applied operators); one non-var hyperedge per applied operator (label multiset), interface types in order, eval of the term (var edges read as \
         copies, callback log compared as a multiset with the operators' reference inputs) equals direct evaluation of the program on random u64 inputs. Oracle for forget / \
         forget_monogamous: returns; well-formed; same type; isomorphic to model substitution replacing exactly the label-uniform (resp. uniform 1->1) var hyperedges by one \
         merged node; for var-built terms evaluates to the same function. non-trivial = program with a shared variable or a term with a non-uniform var hyperedge; distinct = hash \
         of program / term. Also: every operator hyperedge must sit on nodes of its operand and result types (the result-type function of the test signature is not symmetric), pending unifications of a built term are applied before it is evaluated, and the Forget functor value is driven through the native lax path."
    }
    fn corpus_len(&self) -> u64 {
        corpus_terms().len() as u64
    }
    fn floors(&self) -> Vec<(&'static str, u64)> {
        vec![
            ("class:var_edge_no_sources_differently_labelled_targets", 5),
            ("class:var_edge_no_legs", 5),
            ("class:var_edge_uniform", 200),
            ("class:var_edge_non_uniform", 100),
            ("class:var_edge_not_1_to_1", 100),
            ("class:shared_variable", 100),
            ("class:leaked_handle", 20),
            ("outcome:build_ok", 200),
            ("outcome:forget_returned", 400),
            ("api:eval(built)", 200),
            ("api:eval(forgotten)", 200),
            ("api:try_define_map_arrow(Forget)", 200),
            ("events:callback_operations_checked", 500),
        ]
    }
    fn run_case(&self, idx: u64, r: &mut Rng, ctx: &mut Ctx) {
        let c = corpus_terms();
        if (idx as usize) < c.len() {
            let (class, t) = &c[idx as usize];
            ctx.class(class);
            ctx.nontrivial(t);
            self.judge_forget(ctx, class, &to_lax(t), false, r);
            ctx.sample(class, || json!({"term": show_lax(t)}));
            return;
        }
        match r.below(10) {
            0..=4 => {
                let big = ctx.thorough && r.chance(1, 4);
                let p = gen_prog(r, if big { 14 } else { 7 });
                self.judge_build(ctx, "program", &p, r);
            }
            5 => {
                let mut p = gen_prog(r, 5);
                p.leak = true;
                self.judge_build(ctx, "program_leak", &p, r);
            }
            _ => {
                let t = self.arbitrary_term(r);
                if t.e.iter().any(|e| e.l == VOp::Var) {
                    ctx.nontrivial(&t);
                }
                self.judge_forget(ctx, "arbitrary_term", &to_lax(&t), false, r);
                ctx.sample("arbitrary_term", || json!({"term": show_lax(&t)}));
            }
        }
    }
}
