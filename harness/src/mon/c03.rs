//! C03 Symmetric monoidal category laws hold up to genuine isomorphism.

use super::common::*;
use crate::conv::*;
use crate::ctx::*;
use crate::gen::{self, OhParams, P};
use crate::model::*;
use crate::rng::Rng;
use open_hypergraphs::category::{Arrow, Monoidal, SymmetricMonoidal};
use serde_json::json;

pub struct C03;

type S = SOh<u32, u64>;

fn id_on(ty: &[u32]) -> S {
    S::identity(sf(ty.to_vec()))
}
fn tw(a: &[u32], b: &[u32]) -> S {
    <S as SymmetricMonoidal>::twist(sf(a.to_vec()), sf(b.to_vec()))
}

/// composition / tensor through the method or through the operator sugar
fn cmp(sugar: bool, a: &S, b: &S) -> Option<S> {
    if sugar { a >> b } else { a.compose(b) }
}
fn ten(sugar: bool, a: &S, b: &S) -> S {
    if sugar { a | b } else { a.tensor(b) }
}

fn params(r: &mut Rng, thorough: bool) -> OhParams {
    if thorough && r.chance(1, 15) {
        return OhParams { max_nodes: 24, max_edges: 16, max_arity: 3, max_iface: 6, node_labels: 4, edge_labels: 40 };
    }
    match r.below(5) {
        0 => OhParams::tiny(),
        1..=3 => OhParams { max_nodes: 5, max_edges: 4, max_arity: 3, max_iface: 3, node_labels: 2, edge_labels: 3 },
        _ => {
            if thorough {
                OhParams { max_nodes: 8, max_edges: 6, max_arity: 3, max_iface: 4, node_labels: 3, edge_labels: 3 }
            } else {
                OhParams::small()
            }
        }
    }
}

fn unique(r: &mut Rng, ps: &mut [&mut P]) {
    // unique edge labels across all operands: wiring, not label histograms, decides
    if r.chance(1, 2) {
        let mut k = 1000;
        for p in ps.iter_mut() {
            for e in p.e.iter_mut() {
                e.l = k;
                k += 1;
            }
        }
    }
}

fn nontrivial_instance(ps: &[&P]) -> bool {
    ps.iter().any(|p| !p.e.is_empty()) && ps.iter().any(|p| !p.t.is_empty() || !p.s.is_empty())
}

fn classify(ctx: &mut Ctx, ps: &[&P]) {
    for p in ps {
        if !acyclic(&node_succs(p)) {
            ctx.class("cyclic_operand");
        }
        let mut s = p.s.clone();
        s.extend(p.t.iter().cloned());
        s.sort();
        if s.windows(2).any(|w| w[0] == w[1]) {
            ctx.class("repeated_boundary_nodes");
        }
        if p.e.iter().any(|e| { let mut d = e.s.clone(); d.sort(); d.dedup(); d.len() >= 2 }) {
            ctx.class("edge_with_two_distinct_sources");
        }
    }
}

impl C03 {
    fn associativity(&self, ctx: &mut Ctx, r: &mut Rng) {
        let pa = params(r, ctx.thorough);
        let (mut f, mut g, mut h) = gen::composable_triple(r, &pa);
        unique(r, &mut [&mut f, &mut g, &mut h]);
        classify(ctx, &[&f, &g, &h]);
        let input = || json!({"f": show(&f), "g": show(&g), "h": show(&h)});
        if nontrivial_instance(&[&f, &g, &h]) {
            ctx.nontrivial(&("assoc", &f, &g, &h));
        }
        let (lf, lg, lh) = (to_strict(&f), to_strict(&g), to_strict(&h));
        let sugar = r.chance(1, 2);
        ctx.count(if sugar { "via:operator_sugar" } else { "via:methods" });
        let lhs = lib(ctx, "compose", "assoc", &input, || cmp(sugar, &lf, &lg).and_then(|x| cmp(sugar, &x, &lh))).flatten();
        let rhs = lib(ctx, "compose", "assoc", &input, || cmp(sugar, &lg, &lh).and_then(|x| cmp(sugar, &lf, &x))).flatten();
        law(ctx, "associativity", "composable_triple", lhs, rhs, &input);
        ctx.sample("associativity", || input());
    }

    fn identity(&self, ctx: &mut Ctx, r: &mut Rng) {
        let pa = params(r, ctx.thorough);
        let mut f = gen::oh(r, &pa);
        unique(r, &mut [&mut f]);
        classify(ctx, &[&f]);
        let input = || json!({"f": show(&f)});
        if nontrivial_instance(&[&f]) {
            ctx.nontrivial(&("id", &f));
        }
        let lf = to_strict(&f);
        let sugar = r.chance(1, 2);
        ctx.count(if sugar { "via:operator_sugar" } else { "via:methods" });
        let l = lib(ctx, "compose", "identity", &input, || cmp(sugar, &id_on(&f.src_type()), &lf)).flatten();
        let rr = lib(ctx, "compose", "identity", &input, || cmp(sugar, &lf, &id_on(&f.tgt_type()))).flatten();
        law(ctx, "left-identity", "any", l, Some(to_strict(&f)), &input);
        law(ctx, "right-identity", "any", rr, Some(to_strict(&f)), &input);
        ctx.sample("identity", || input());
    }

    fn interchange(&self, ctx: &mut Ctx, r: &mut Rng) {
        let pa = params(r, ctx.thorough);
        let (mut f, mut g) = gen::composable_pair(r, &pa);
        let (mut h, mut k) = gen::composable_pair(r, &pa);
        unique(r, &mut [&mut f, &mut g, &mut h, &mut k]);
        classify(ctx, &[&f, &g, &h, &k]);
        let input = || json!({"f": show(&f), "g": show(&g), "h": show(&h), "k": show(&k)});
        if nontrivial_instance(&[&f, &g, &h, &k]) {
            ctx.nontrivial(&("interchange", &f, &g, &h, &k));
        }
        let (lf, lg, lh, lk) = (to_strict(&f), to_strict(&g), to_strict(&h), to_strict(&k));
        let sugar = r.chance(1, 2);
        ctx.count(if sugar { "via:operator_sugar" } else { "via:methods" });
        let lhs = lib(ctx, "compose+tensor", "interchange", &input, || Some(ten(sugar, &cmp(sugar, &lf, &lg)?, &cmp(sugar, &lh, &lk)?))).flatten();
        let rhs = lib(ctx, "compose+tensor", "interchange", &input, || cmp(sugar, &ten(sugar, &lf, &lh), &ten(sugar, &lg, &lk))).flatten();
        law(ctx, "interchange", "pair_of_composable_pairs", lhs, rhs, &input);
        ctx.sample("interchange", || input());
    }

    fn twist_laws(&self, ctx: &mut Ctx, r: &mut Rng, fixed: Option<(Vec<u32>, Vec<u32>, Vec<u32>)>) {
        let (a, b, c) = fixed.unwrap_or_else(|| (gen::type_list(r, 4, 2), gen::type_list(r, 4, 2), gen::type_list(r, 3, 2)));
        let input = || json!({"a": a, "b": b, "c": c});
        if a.is_empty() || b.is_empty() {
            ctx.class("empty_object_in_twist");
        }
        if !a.is_empty() && !b.is_empty() {
            ctx.nontrivial(&("twist", &a, &b, &c));
        }
        let ab: Vec<u32> = a.iter().chain(b.iter()).cloned().collect();
        let ba: Vec<u32> = b.iter().chain(a.iter()).cloned().collect();
        let bc: Vec<u32> = b.iter().chain(c.iter()).cloned().collect();
        // type of the symmetry
        if let Some(t) = lib(ctx, "twist", "objects", &input, || tw(&a, &b)) {
            if let Some(p) = walk(ctx, "twist", "objects", &t, &input) {
                ctx.check(p.src_type() == ab && p.tgt_type() == ba && p.e.is_empty(), "twist/type/value/objects", || json!({"input": input(), "observed": show(&p)}));
                expect_iso(ctx, "twist", "is-the-symmetry", "objects", &p, &POh::twist(&a, &b), &input);
            }
        }
        // identities and types through the trait entry points as well
        if let Some((ti, src, tgt)) = lib(ctx, "Arrow::identity/source/target", "objects", &input, || {
            let i = <S as Arrow>::identity(sf(ab.clone()));
            let (s, t) = (<S as Arrow>::source(&i).0 .0.clone(), <S as Arrow>::target(&i).0 .0.clone());
            (i, s, t)
        }) {
            if let Some(p) = walk(ctx, "Arrow::identity", "objects", &ti, &input) {
                ctx.check(src == ab && tgt == ab && p.e.is_empty(), "Arrow::identity/type/value/objects", || json!({"input": input(), "observed": show(&p)}));
                expect_iso(ctx, "Arrow::identity", "is-the-identity", "objects", &p, &POh::identity(ab.clone()), &input);
            }
        }
        let sugar = a.len() % 2 == 1;
        ctx.count(if sugar { "via:operator_sugar" } else { "via:methods" });
        // self-inverse
        let lhs = lib(ctx, "twist;twist", "objects", &input, || cmp(sugar, &tw(&a, &b), &tw(&b, &a))).flatten();
        law(ctx, "twist-self-inverse", "objects", lhs, Some(id_on(&ab)), &input);
        // hexagons
        let lhs = lib(ctx, "twist", "objects", &input, || tw(&a, &bc));
        let rhs = lib(ctx, "hexagon", "objects", &input, || cmp(sugar, &ten(sugar, &tw(&a, &b), &id_on(&c)), &ten(sugar, &id_on(&b), &tw(&a, &c)))).flatten();
        law(ctx, "hexagon-1", "objects", lhs, rhs, &input);
        let lhs = lib(ctx, "twist", "objects", &input, || tw(&ab, &c));
        let rhs = lib(ctx, "hexagon", "objects", &input, || cmp(sugar, &ten(sugar, &id_on(&a), &tw(&b, &c)), &ten(sugar, &tw(&a, &c), &id_on(&b)))).flatten();
        law(ctx, "hexagon-2", "objects", lhs, rhs, &input);
        ctx.sample("twist_laws", || input());
    }

    fn naturality(&self, ctx: &mut Ctx, r: &mut Rng) {
        let pa = params(r, ctx.thorough);
        let mut f = gen::oh(r, &pa);
        let mut g = gen::oh(r, &pa);
        unique(r, &mut [&mut f, &mut g]);
        classify(ctx, &[&f, &g]);
        let input = || json!({"f": show(&f), "g": show(&g)});
        if nontrivial_instance(&[&f, &g]) {
            ctx.nontrivial(&("naturality", &f, &g));
        }
        let (lf, lg) = (to_strict(&f), to_strict(&g));
        // (f ⊗ g) ; σ_{B1,B2}  ≅  σ_{A1,A2} ; (g ⊗ f)
        let sugar = r.chance(1, 2);
        ctx.count(if sugar { "via:operator_sugar" } else { "via:methods" });
        let lhs = lib(ctx, "tensor;twist", "naturality", &input, || cmp(sugar, &ten(sugar, &lf, &lg), &tw(&f.tgt_type(), &g.tgt_type()))).flatten();
        let rhs = lib(ctx, "twist;tensor", "naturality", &input, || cmp(sugar, &tw(&f.src_type(), &g.src_type()), &ten(sugar, &lg, &lf))).flatten();
        law(ctx, "twist-naturality", "arbitrary_pair", lhs, rhs, &input);
        // naturality in each argument separately
        let ida = id_on(&g.src_type());
        let lhs = lib(ctx, "tensor;twist", "naturality", &input, || lf.tensor(&ida).compose(&tw(&f.tgt_type(), &g.src_type()))).flatten();
        let rhs = lib(ctx, "twist;tensor", "naturality", &input, || tw(&f.src_type(), &g.src_type()).compose(&ida.tensor(&lf))).flatten();
        law(ctx, "twist-naturality-first-argument", "arbitrary_pair", lhs, rhs, &input);
        let idf = id_on(&f.src_type());
        let lhs = lib(ctx, "tensor;twist", "naturality", &input, || idf.tensor(&lg).compose(&tw(&f.src_type(), &g.tgt_type()))).flatten();
        let rhs = lib(ctx, "twist;tensor", "naturality", &input, || tw(&f.src_type(), &g.src_type()).compose(&lg.tensor(&idf))).flatten();
        law(ctx, "twist-naturality-second-argument", "arbitrary_pair", lhs, rhs, &input);
        ctx.sample("naturality", || input());
    }
}

impl C03 {
    /// associativity and interchange through the lax representation: operands carry pending
    /// (label-consistent) unifications, the tensor is taken with the pure or the in-place variant;
    /// both sides are strictified by the library and compared up to isomorphism
    fn lax_laws(&self, ctx: &mut Ctx, r: &mut Rng) {
        use crate::gen::PL;
        use open_hypergraphs::lax;
        type L = lax::OpenHypergraph<u32, u64>;
        let pa = OhParams { max_nodes: 5, max_edges: 3, max_arity: 3, max_iface: 3, node_labels: 2, edge_labels: 3 };
        let (mut f, mut g) = gen::composable_pair(r, &pa);
        let (mut h, mut k) = gen::composable_pair(r, &pa);
        unique(r, &mut [&mut f, &mut g, &mut h, &mut k]);
        let pend = |p: &P, r: &mut Rng| -> PL {
            let mut l = p.to_lax();
            let n = l.w.len();
            if n > 0 {
                for _ in 0..r.small(2) {
                    let a = r.below(n);
                    let c: Vec<usize> = (0..n).filter(|&i| l.w[i] == l.w[a]).collect();
                    l.q.push((a, *r.pick(&c)));
                }
            }
            l
        };
        let (pf, pg, ph, pk) = (pend(&f, r), pend(&g, r), pend(&h, r), pend(&k, r));
        let input = || json!({"f": show_lax(&pf), "g": show_lax(&pg), "h": show_lax(&ph), "k": show_lax(&pk)});
        if nontrivial_instance(&[&f, &g, &h, &k]) {
            ctx.nontrivial(&("lax-laws", &pf, &pg, &ph, &pk));
        }
        let (xf, xg, xh, xk): (L, L, L, L) = (to_lax(&pf), to_lax(&pg), to_lax(&ph), to_lax(&pk));
        let inplace = r.chance(1, 2);
        ctx.count(if inplace { "via:lax_tensor_assign" } else { "via:lax_tensor" });
        let ten = |a: &L, b: &L| -> L {
            if inplace {
                let mut x = a.clone();
                x.tensor_assign(b.clone());
                x
            } else {
                a.tensor(b)
            }
        };
        // interchange: (f;g)|(h;k) = (f|h);(g|k)
        let lhs = lib(ctx, "lax::compose+tensor", "lax", &input, || Some(ten(&Arrow::compose(&xf, &xg)?, &Arrow::compose(&xh, &xk)?).to_strict())).flatten();
        let rhs = lib(ctx, "lax::compose+tensor", "lax", &input, || Arrow::compose(&ten(&xf, &xh), &ten(&xg, &xk)).map(|x| x.to_strict())).flatten();
        law(ctx, "lax-interchange", "lax", lhs, rhs, &input);
        // associativity of tensor and of composition, right- vs left-nested
        let lhs = lib(ctx, "lax::tensor", "lax", &input, || ten(&ten(&xf, &xg), &xh).to_strict());
        let rhs = lib(ctx, "lax::tensor", "lax", &input, || ten(&xf, &ten(&xg, &xh)).to_strict());
        law(ctx, "lax-tensor-associativity", "lax", lhs, rhs, &input);
        // identity laws and associativity of composition through the lax representation, against the model
        if let (Ok((sf_, _)), Ok((sg_, _))) = (pf.strict(), pg.strict()) {
            let ida = L::identity(f.src_type());
            let idb = L::identity(g.tgt_type());
            let lhs = lib(ctx, "lax::compose", "lax", &input, || Arrow::compose(&ida, &Arrow::compose(&xf, &xg)?).map(|x| x.to_strict())).flatten();
            let rhs = lib(ctx, "lax::compose", "lax", &input, || Arrow::compose(&Arrow::compose(&xf, &xg)?, &idb).map(|x| x.to_strict())).flatten();
            if let (Some(pl), Some(m)) = (law(ctx, "lax-identity-laws", "lax", lhs, rhs, &input), sf_.compose(&sg_)) {
                expect_iso(ctx, "lax::compose", "identities-are-units-model", "lax", &pl, &m, &input);
            }
            // (f;g);t = f;(g;t) with t the symmetry on g's target type split in two
            let ty = g.tgt_type();
            let cut = ty.len() / 2;
            let t = <L as SymmetricMonoidal>::twist(ty[..cut].to_vec(), ty[cut..].to_vec());
            let lhs = lib(ctx, "lax::compose", "lax", &input, || Arrow::compose(&Arrow::compose(&xf, &xg)?, &t).map(|x| x.to_strict())).flatten();
            let rhs = lib(ctx, "lax::compose", "lax", &input, || Arrow::compose(&xf, &Arrow::compose(&xg, &t)?).map(|x| x.to_strict())).flatten();
            if let (Some(pl), Some(m)) = (law(ctx, "lax-compose-associativity", "lax", lhs, rhs, &input), sf_.compose(&sg_).and_then(|x| x.compose(&POh::twist(&ty[..cut], &ty[cut..])))) {
                expect_iso(ctx, "lax::compose", "associative-model", "lax", &pl, &m, &input);
            }
        }
        // the same interchange instance over heap-allocated labels
        if inplace {
            type LS = lax::OpenHypergraph<String, String>;
            let ms = |p: &PL| -> PLax<String, String> { PLax { w: p.w.iter().map(|o| format!("sort-{}", o)).collect(), e: p.e.iter().map(|e| PEdge { l: format!("op-{}", e.l), s: e.s.clone(), t: e.t.clone() }).collect(), s: p.s.clone(), t: p.t.clone(), q: p.q.clone() } };
            let (sf_, sg_, sh_, sk_): (LS, LS, LS, LS) = (to_lax(&ms(&pf)), to_lax(&ms(&pg)), to_lax(&ms(&ph)), to_lax(&ms(&pk)));
            let lhs = lib(ctx, "lax::compose+tensor<String>", "lax", &input, || Some(Arrow::compose(&sf_, &sg_)?.tensor(&Arrow::compose(&sh_, &sk_)?).to_strict())).flatten();
            let rhs = lib(ctx, "lax::compose+tensor<String>", "lax", &input, || Arrow::compose(&sf_.tensor(&sh_), &sg_.tensor(&sk_)).map(|x| x.to_strict())).flatten();
            if let Some(pl) = law(ctx, "lax-interchange-heap-labels", "lax", lhs, rhs, &input) {
                // and against the model: (f;g)|(h;k) on the quotiented operands
                if let (Ok((a, _)), Ok((b, _)), Ok((c, _)), Ok((d, _))) = (ms(&pf).strict(), ms(&pg).strict(), ms(&ph).strict(), ms(&pk).strict()) {
                    if let (Some(ab), Some(cd)) = (a.compose(&b), c.compose(&d)) {
                        expect_iso(ctx, "lax::compose+tensor<String>", "interchange-model", "lax", &pl, &ab.tensor(&cd), &input);
                    }
                }
            }
        }
        ctx.sample("lax_laws", || input());
    }
}

impl Monitor for C03 {
    fn id(&self) -> &'static str {
        "C03"
    }
    fn uses_iso(&self) -> bool {
        true
    }
    fn rule(&self) -> &'static str {
        "cases: fixed object lists (empty objects, repeated labels) then seeded instances of each law: composable triples (associativity), single diagrams (left/right identity), \
         pairs of composable pairs (interchange), arbitrary pairs incl. non-monogamous and cyclic ones (naturality of the symmetry, jointly and per argument), object lists of \
         length 0-4 over 2 labels (symmetry type, self-inverse, both hexagons). In half of the instances every hyperedge gets a unique label so that wiring, not label histograms, \
         decides. Both sides are computed through the public API (compose, tensor, identity, twist; in half of the instances through the operator sugar `>>` and `|` instead of the methods) and compared by the isomorphism search with pinned interfaces. non-trivial = \
         instance with >=1 hyperedge and a non-empty boundary (for object laws: both objects non-empty); distinct = hash of the instance. Also: identity / source / target through the Arrow trait, the twist laws through the operator sugar, and through the lax representation (operands with pending unifications) interchange, associativity of tensor and of composition and the identity laws, the latter two also against the model."
    }
    fn corpus_len(&self) -> u64 {
        5
    }
    fn floors(&self) -> Vec<(&'static str, u64)> {
        vec![
            ("law:associativity", 100),
            ("law:left-identity", 100),
            ("law:right-identity", 100),
            ("law:interchange", 100),
            ("law:twist-naturality", 100),
            ("law:twist-naturality-first-argument", 100),
            ("law:twist-naturality-second-argument", 100),
            ("law:twist-self-inverse", 100),
            ("law:hexagon-1", 100),
            ("law:hexagon-2", 100),
            ("class:empty_object_in_twist", 5),
            ("class:cyclic_operand", 50),
            ("class:repeated_boundary_nodes", 50),
            ("class:edge_with_two_distinct_sources", 50),
            ("via:operator_sugar", 200),
            ("via:methods", 200),
            ("law:lax-interchange", 100),
            ("law:lax-interchange-heap-labels", 50),
            ("law:lax-identity-laws", 100),
            ("law:lax-compose-associativity", 100),
            ("api:Arrow::identity/source/target", 100),
            ("via:lax_tensor_assign", 50),
        ]
    }
    fn run_case(&self, idx: u64, r: &mut Rng, ctx: &mut Ctx) {
        match idx {
            0 => self.twist_laws(ctx, r, Some((vec![], vec![], vec![]))),
            1 => self.twist_laws(ctx, r, Some((vec![], vec![0, 1], vec![1]))),
            2 => self.twist_laws(ctx, r, Some((vec![0, 1], vec![], vec![]))),
            3 => self.twist_laws(ctx, r, Some((vec![0, 0, 1], vec![1, 0], vec![0, 1]))),
            4 => self.twist_laws(ctx, r, Some((vec![1], vec![1], vec![1]))),
            _ => match r.below(7) {
                6 => self.lax_laws(ctx, r),
                0 => self.associativity(ctx, r),
                1 => self.identity(ctx, r),
                2 => self.interchange(ctx, r),
                3 => self.twist_laws(ctx, r, None),
                _ => self.naturality(ctx, r),
            },
        }
    }
}
