//! C13 Native lax functor path agrees with the strict path; witness is correct.

use super::c12::{classify, small_diagram};
use super::common::*;
use crate::conv::*;
use crate::ctx::*;
use crate::functors::*;
use crate::gen::P;
use crate::model::*;
use crate::rng::Rng;
use open_hypergraphs::lax::functor::{map_arrow_witness, try_define_map_arrow, Functor as LaxFunctor};
use serde_json::json;

pub struct C13;

impl C13 {
    fn refusal(&self, ctx: &mut Ctx, spec: &FSpec, p: &P, q: Vec<(usize, usize)>) {
        let mut pl = p.to_lax();
        pl.q = q;
        let input = || json!({"functor": format!("{:?}", spec), "f": show_lax(&pl)});
        ctx.class("pending_unifications");
        ctx.nontrivial(&("refusal", spec, &pl));
        let lx = to_lax(&pl);
        let fun = LaxSpec(spec.clone());
        if let Some(o) = lib(ctx, "try_define_map_arrow", "pending", &input, || try_define_map_arrow(&fun, &lx)) {
            ctx.outcome("refused");
            ctx.check(o.is_none(), "try_define_map_arrow/refuses-pending-unifications/value/pending", || json!({"input": input(), "observed": "Some"}));
        }
        if let Some(o) = lib(ctx, "map_arrow_witness", "pending", &input, || map_arrow_witness(&fun, &lx)) {
            ctx.check(o.is_none(), "map_arrow_witness/refuses-pending-unifications/value/pending", || json!({"input": input(), "observed": "Some"}));
        }
        // relabelling hyperedges (or nodes) does not settle anything: the relabelled diagram is still refused
        {
            let rel = lx.clone().map_edges(|a| a + 1).map_nodes(|o| o);
            if !rel.hypergraph.quotient.0.is_empty() || true {
                let fun2 = LaxSpec(spec.clone());
                if let Some(o) = lib(ctx, "try_define_map_arrow", "pending_relabelled", &input, || try_define_map_arrow(&fun2, &rel)) {
                    ctx.count("law:refused-after-relabelling");
                    ctx.check(o.is_none(), "try_define_map_arrow/refuses-pending-unifications/value/pending_relabelled", || json!({"input": input(), "observed": "Some"}));
                }
            }
        }
        // a failed attempt to quotient (label-conflicting pairs) leaves the pairs pending: still refused afterwards
        if pl.q.iter().any(|&(a, b)| pl.w[a] != pl.w[b]) {
            let mut after = lx.clone();
            ctx.count("law:refused-after-a-failed-quotient");
            if let Some(res) = lib(ctx, "quotient", "pending", &input, || after.quotient().is_ok()) {
                // judged only while pairs are in fact still pending (what a failed quotient leaves behind is C09's clause)
                if !res && !after.hypergraph.quotient.0.is_empty() {
                    if let Some(o) = lib(ctx, "try_define_map_arrow", "after_failed_quotient", &input, || try_define_map_arrow(&fun, &after)) {
                        ctx.check(o.is_none(), "try_define_map_arrow/refuses-pending-unifications/value/after_failed_quotient", || json!({"input": input(), "observed": "Some"}));
                    }
                    if let Some(o) = lib(ctx, "map_arrow_witness", "after_failed_quotient", &input, || map_arrow_witness(&fun, &after)) {
                        ctx.check(o.is_none(), "map_arrow_witness/refuses-pending-unifications/value/after_failed_quotient", || json!({"input": input(), "observed": "Some"}));
                    }
                }
            }
        }
        ctx.sample("refusal", || input());
    }

    /// entry point for C12: same oracle, without re-counting the shape classes
    pub fn native_only(&self, ctx: &mut Ctx, class: &str, spec: &FSpec, p: &P) {
        self.native_impl(ctx, class, spec, p, false)
    }

    fn native(&self, ctx: &mut Ctx, class: &str, spec: &FSpec, p: &P) {
        self.native_impl(ctx, class, spec, p, true)
    }

    fn native_impl(&self, ctx: &mut Ctx, class: &str, spec: &FSpec, p: &P, count_classes: bool) {
        let input = || json!({"functor": format!("{:?}", spec), "f": show(p)});
        if count_classes {
            classify(ctx, spec, p);
        }
        if !p.e.is_empty() && p.w.iter().any(|o| spec.obj(o).len() != 1) {
            ctx.nontrivial(&(spec, p));
        }
        let sub = match spec.apply(p) {
            Ok(s) => s,
            Err(e) => {
                ctx.inconclusive(&format!("model substitution failed: {:?}", e));
                return;
            }
        };
        let want = &sub.result;
        let lx = to_lax(&p.to_lax());
        let fun = LaxSpec(spec.clone());

        // strict path (through dyn_functor), as computed by the library
        let strict_path = lib(ctx, "lax::Functor::map_arrow(dyn)", class, &input, || fun.map_arrow(&lx)).and_then(|img| from_lax(&img).ok()).and_then(|pl| pl.strict().ok()).map(|x| x.0);

        // native path
        if let Some(o) = lib(ctx, "try_define_map_arrow", class, &input, || try_define_map_arrow(&fun, &lx)) {
            match o {
                None => {
                    ctx.check(false, "try_define_map_arrow/accepts-quotient-free/value/any", || json!({"input": input(), "observed": "None"}));
                }
                Some(img) => {
                    ctx.outcome("native_Some");
                    if let Some(pl) = walk_lax(ctx, "try_define_map_arrow", class, &img, &input) {
                        match pl.strict() {
                            Err(_) => {
                                ctx.check(false, "try_define_map_arrow/result-quotientable/value/any", || json!({"input": input(), "observed": show_lax(&pl)}));
                            }
                            Ok((got, _)) => {
                                let ty = got.src_type() == want.src_type() && got.tgt_type() == want.tgt_type();
                                if ctx.check(ty, "try_define_map_arrow/type/value/any", || json!({"input": input(), "observed": show(&got), "expected_type": format!("{:?}->{:?}", want.src_type(), want.tgt_type())})) {
                                    expect_iso(ctx, "try_define_map_arrow", "isomorphic-to-model-substitution", class, &got, want, &input);
                                    if let Some(sp) = &strict_path {
                                        ctx.count("law:native-equals-strict-path");
                                        expect_iso(ctx, "try_define_map_arrow", "isomorphic-to-strict-path", class, &got, sp, &input);
                                    }
                                }
                            }
                        }
                    }
                }
            }
        }

        // witness
        if let Some(o) = lib(ctx, "map_arrow_witness", class, &input, || map_arrow_witness(&fun, &lx)) {
            match o {
                None => {
                    ctx.check(false, "map_arrow_witness/accepts-quotient-free/value/any", || json!({"input": input(), "observed": "None"}));
                }
                Some((img, wit)) => {
                    let pl = match walk_lax(ctx, "map_arrow_witness", class, &img, &input) {
                        Some(pl) => pl,
                        None => return,
                    };
                    let (got, q) = match pl.strict() {
                        Ok(x) => x,
                        Err(_) => {
                            ctx.check(false, "map_arrow_witness/result-quotientable/value/any", || json!({"input": input()}));
                            return;
                        }
                    };
                    expect_iso(ctx, "map_arrow_witness", "isomorphic-to-model-substitution", class, &got, want, &input);
                    let segs = match seg_to_lists(&wit) {
                        Ok(s) => s,
                        Err(e) => {
                            ctx.check(false, "map_arrow_witness/witness-well-formed/value/any", || json!({"input": input(), "observed": e}));
                            return;
                        }
                    };
                    ctx.count_n("events:witness_segments_checked", segs.len() as u64);
                    // one segment per input node, of size |F(label)|, every entry a node of the result
                    let sizes_ok = segs.len() == p.w.len()
                        && segs.iter().zip(p.w.iter()).all(|(s, o)| s.len() == spec.obj(o).len())
                        && segs.iter().flatten().all(|&v| v < pl.w.len())
                        && wit.values.target == pl.w.len();
                    if !ctx.check(sizes_ok, "map_arrow_witness/one-segment-of-size-|F(label)|-per-node/value/any", || {
                        json!({"input": input(), "observed": segs, "expected_sizes": p.w.iter().map(|o| spec.obj(o).len()).collect::<Vec<_>>()})
                    }) {
                        return;
                    }
                    // labels: q(witness(i)[j]) carries F(label i)[j]
                    let labels_ok = segs.iter().zip(p.w.iter()).all(|(s, o)| {
                        let img = spec.obj(o);
                        s.iter().zip(img.iter()).all(|(&v, l)| got.w[q[v]] == *l)
                    });
                    ctx.check(labels_ok, "map_arrow_witness/witness-nodes-carry-F(label)/value/any", || json!({"input": input(), "observed": segs, "result": show(&got)}));
                    // interfaces pushed through the witness and the quotient give the output interfaces
                    let push = |iface: &Vec<usize>| -> Vec<usize> { iface.iter().flat_map(|&i| segs[i].iter().map(|&v| q[v])).collect() };
                    ctx.check(push(&p.s) == got.s && push(&p.t) == got.t, "map_arrow_witness/interfaces-through-witness/value/any", || {
                        json!({"input": input(), "witness": segs, "quotient": q, "observed_interfaces": [got.s.clone(), got.t.clone()], "pushed": [push(&p.s), push(&p.t)]})
                    });
                    // stronger: the witness relates node i to the model's block of i under an isomorphism that
                    // pins the witness nodes. Encode blocks as extra interface entries on both sides.
                    let mut a = got.clone();
                    let mut b = want.clone();
                    for (i, s) in segs.iter().enumerate() {
                        for (j, &v) in s.iter().enumerate() {
                            a.s.push(q[v]);
                            b.s.push(sub.blocks[i][j]);
                        }
                    }
                    expect_iso(ctx, "map_arrow_witness", "witness-is-the-node-block-relation", class, &a, &b, &input);
                }
            }
        }
        // the library's own identity functor through the native path: the argument itself, witness = one
        // singleton segment per node
        if count_classes {
            use open_hypergraphs::lax::functor::dyn_functor::Identity;
            if let Some(o) = lib(ctx, "map_arrow_witness(Identity)", class, &input, || map_arrow_witness(&Identity, &lx)) {
                match o {
                    None => { ctx.check(false, "map_arrow_witness(Identity)/accepts-quotient-free/value/any", || json!({"input": input()})); }
                    Some((img, wit)) => {
                        ctx.count("law:native-identity-functor");
                        if let Some(pl) = walk_lax(ctx, "map_arrow_witness(Identity)", class, &img, &input) {
                            match (pl.strict(), seg_to_lists(&wit)) {
                                (Ok((got, q)), Ok(segs)) => {
                                    let shape = segs.len() == p.w.len() && segs.iter().all(|s| s.len() == 1 && s[0] < pl.w.len());
                                    if ctx.check(shape, "map_arrow_witness(Identity)/one-singleton-segment-per-node/value/any", || json!({"input": input(), "observed": segs})) {
                                        let mut a = got.clone();
                                        let mut b = p.clone();
                                        for (i, s) in segs.iter().enumerate() {
                                            a.s.push(q[s[0]]);
                                            b.s.push(i);
                                        }
                                        expect_iso(ctx, "map_arrow_witness(Identity)", "the-argument-with-witness-i-to-node-i", class, &a, &b, &input);
                                    }
                                }
                                _ => { ctx.check(false, "map_arrow_witness(Identity)/result-quotientable/value/any", || json!({"input": input()})); }
                            }
                        }
                    }
                }
            }
        }
        ctx.sample(class, || json!({"functor": format!("{:?}", spec), "f": show(p)}));
    }
}

impl Monitor for C13 {
    fn id(&self) -> &'static str {
        "C13"
    }
    fn uses_iso(&self) -> bool {
        true
    }
    fn rule(&self) -> &'static str {
        "cases: the C12 functor specs and diagrams (quotient-free lax diagrams of <=6 nodes / <=4 hyperedges, object images of length 0-3, all operation-image kinds) through the native lax \
         path try_define_map_arrow and map_arrow_witness; plus the same diagrams with >=1 pending unification for the refusal clause. Oracle: None iff the argument has pending unifications; \
         otherwise the result is walked for well-formedness, quotiented on the model side, typed F(A)->F(B), isomorphic to the model substitution and to the strict path's result computed by \
         the library; the witness has one segment per input node of size |F(label)|, its nodes (through the quotient map) carry the labels F(label)[j], pushing both input interfaces \
         through witness and quotient gives the output interfaces, and an isomorphism to the model exists that maps the witness nodes of node i onto the model's block of i. \
         non-trivial = >=1 hyperedge and an object whose image has length != 1, or a refusal; distinct = hash of (spec, diagram). Also: refusal with label-conflicting pending pairs, and the library's own Identity functor through the native path (witness = one singleton segment per node)."
    }
    fn corpus_len(&self) -> u64 {
        4
    }
    fn floors(&self) -> Vec<(&'static str, u64)> {
        vec![
            ("class:pending_unifications", 100),
            ("outcome:refused", 100),
            ("outcome:native_Some", 300),
            ("class:object_image_length_0", 100),
            ("class:object_image_length_many", 100),
            ("class:op_image_composite", 20),
            ("class:op_image_spider_only", 20),
            ("law:native-equals-strict-path", 200),
            ("law:native-identity-functor", 200),
            ("class:refusal_with_label_conflicting_pairs", 30),
            ("law:refused-after-a-failed-quotient", 30),
            ("law:refused-after-relabelling", 100),
            ("events:witness_segments_checked", 500),
        ]
    }
    fn run_case(&self, idx: u64, r: &mut Rng, ctx: &mut Ctx) {
        let e = |l: u64, s: &[usize], t: &[usize]| PEdge { l, s: s.to_vec(), t: t.to_vec() };
        let d: P = POh { w: vec![0, 1, 2, 1], e: vec![e(0, &[0, 1], &[2]), e(1, &[2, 2], &[3, 0]), e(2, &[], &[])], s: vec![0, 1, 1], t: vec![3, 2] };
        match idx {
            0 => self.native(ctx, "mixed_lengths", &FSpec { lens: [0, 1, 3], distinct_images: true, op: 1 }, &d),
            1 => self.native(ctx, "all_empty", &FSpec { lens: [0, 0, 0], distinct_images: true, op: 0 }, &d),
            2 => self.native(ctx, "spider_only", &FSpec { lens: [2, 1, 2], distinct_images: false, op: 2 }, &d),
            3 => self.refusal(ctx, &FSpec { lens: [1, 1, 1], distinct_images: true, op: 0 }, &d, vec![(1, 3)]),
            _ => {
                let spec = FSpec::random(r);
                let p = small_diagram(r);
                if r.chance(1, 5) && !p.w.is_empty() {
                    let n = p.w.len();
                    let k = r.range(1, 3);
                    // label-consistent pairs, or (one time in three) arbitrary ones -- then the diagram cannot even be quotiented
                    let free = r.chance(1, 3);
                    let q: Vec<(usize, usize)> = (0..k).map(|_| { let a = r.below(n); let c: Vec<usize> = (0..n).filter(|&i| free || p.w[i] == p.w[a]).collect(); (a, *r.pick(&c)) }).collect();
                    if q.iter().any(|&(a, b)| p.w[a] != p.w[b]) {
                        ctx.class("refusal_with_label_conflicting_pairs");
                    }
                    self.refusal(ctx, &spec, &p, q);
                } else {
                    self.native(ctx, "random", &spec, &p);
                }
            }
        }
    }
}
