pub mod common;
pub mod c01;

use common::Monitor;

pub fn all() -> Vec<Box<dyn Monitor>> {
    vec![Box::new(c01::C01)]
}
