//! Seeded generators for plain-model diagrams. Sizes are biased small so that boundary nodes are
//! shared and repeated, incidences repeat and labels collide often.

use crate::model::*;
use crate::rng::Rng;

pub type NL = u32;
pub type EL = u64;
pub type P = POh<NL, EL>;
pub type PL = PLax<NL, EL>;

#[derive(Clone, Debug)]
pub struct OhParams {
    pub max_nodes: usize,
    pub max_edges: usize,
    pub max_arity: usize,
    pub max_iface: usize,
    pub node_labels: u32,
    pub edge_labels: u64,
}

impl OhParams {
    pub fn small() -> Self {
        OhParams { max_nodes: 6, max_edges: 5, max_arity: 3, max_iface: 4, node_labels: 3, edge_labels: 3 }
    }
    pub fn tiny() -> Self {
        OhParams { max_nodes: 4, max_edges: 3, max_arity: 2, max_iface: 3, node_labels: 2, edge_labels: 2 }
    }
    pub fn dense() -> Self {
        OhParams { max_nodes: 6, max_edges: 6, max_arity: 4, max_iface: 3, node_labels: 2, edge_labels: 2 }
    }
    pub fn medium() -> Self {
        OhParams { max_nodes: 40, max_edges: 30, max_arity: 4, max_iface: 8, node_labels: 4, edge_labels: 5 }
    }
}

/// arbitrary well-formed open hypergraph
pub fn oh(r: &mut Rng, p: &OhParams) -> P {
    let n = r.small(p.max_nodes);
    let w: Vec<NL> = (0..n).map(|_| r.below(p.node_labels as usize) as NL).collect();
    let m = r.small(p.max_edges);
    let mut e = vec![];
    for _ in 0..m {
        let (a, b) = if n == 0 { (0, 0) } else { (r.small(p.max_arity), r.small(p.max_arity)) };
        e.push(PEdge {
            l: r.below(p.edge_labels as usize) as EL,
            s: r.vec_below(a, n.max(1)),
            t: r.vec_below(b, n.max(1)),
        });
    }
    let (ls, lt) = if n == 0 { (0, 0) } else { (r.small(p.max_iface), r.small(p.max_iface)) };
    let s = r.vec_below(ls, n.max(1));
    let t = r.vec_below(lt, n.max(1));
    POh { w, e, s, t }
}

/// a diagram whose source type is exactly `ty` (boundary nodes are deliberately shared/repeated)
pub fn oh_with_source(r: &mut Rng, p: &OhParams, ty: &[NL]) -> P {
    let mut g = oh(r, p);
    g.s = vec![];
    for &l in ty {
        let cands: Vec<usize> = (0..g.w.len()).filter(|&i| g.w[i] == l).collect();
        if cands.is_empty() || r.chance(1, 4) {
            g.w.push(l);
            g.s.push(g.w.len() - 1);
        } else {
            g.s.push(*r.pick(&cands));
        }
    }
    g
}

pub fn oh_with_target(r: &mut Rng, p: &OhParams, ty: &[NL]) -> P {
    oh_with_source(r, p, ty).dagger()
}

/// (f, g) with target type of f = source type of g
pub fn composable_pair(r: &mut Rng, p: &OhParams) -> (P, P) {
    let f = oh(r, p);
    if r.chance(1, 25) && !f.t.is_empty() {
        // second factor = discrete cospan with equal legs and as many ports as nodes, but legs that
        // are not a bijection (it looks like an identity to a sloppy test and is not one)
        let ty = f.tgt_type();
        let n = ty.len();
        let mut leg: Vec<usize> = (0..n).collect();
        let mut w = ty.clone();
        for i in 1..n {
            if ty[i] == ty[i - 1] && r.chance(1, 2) {
                leg[i] = leg[i - 1];
            }
        }
        // unreferenced positions stay as isolated nodes carrying the type's label
        let _ = &mut w;
        return (f, POh { w, e: vec![], s: leg.clone(), t: leg });
    }
    let g = oh_with_source(r, p, &f.tgt_type());
    (f, g)
}

pub fn composable_triple(r: &mut Rng, p: &OhParams) -> (P, P, P) {
    let f = oh(r, p);
    let g = oh_with_source(r, p, &f.tgt_type());
    let h = oh_with_source(r, p, &g.tgt_type());
    (f, g, h)
}

pub fn uniquify_edge_labels(p: &mut P) {
    for (k, e) in p.e.iter_mut().enumerate() {
        e.l = 1000 + k as EL;
    }
}

pub fn uniquify_node_labels(p: &mut P) {
    for (k, l) in p.w.iter_mut().enumerate() {
        *l = 100 + k as NL;
    }
}

pub fn type_list(r: &mut Rng, max_len: usize, labels: u32) -> Vec<NL> {
    let n = r.small(max_len);
    (0..n).map(|_| r.below(labels as usize) as NL).collect()
}

/// Monogamous acyclic diagram: every node has exactly one writer (input or one edge target
/// position) and exactly one reader (output or one edge source position).
pub fn monogamous_acyclic(r: &mut Rng, max_inputs: usize, max_ops: usize, p: &OhParams) -> P {
    let mut w: Vec<NL> = vec![];
    let mut s = vec![];
    let mut avail: Vec<usize> = vec![]; // written, not yet read
    for _ in 0..r.small(max_inputs) {
        w.push(r.below(p.node_labels as usize) as NL);
        s.push(w.len() - 1);
        avail.push(w.len() - 1);
    }
    let mut e = vec![];
    for _ in 0..r.small(max_ops) {
        let a = r.small(p.max_arity).min(avail.len());
        let mut src = vec![];
        for _ in 0..a {
            let k = r.below(avail.len());
            src.push(avail.swap_remove(k));
        }
        let b = r.small(p.max_arity);
        let mut tgt = vec![];
        for _ in 0..b {
            w.push(r.below(p.node_labels as usize) as NL);
            tgt.push(w.len() - 1);
            avail.push(w.len() - 1);
        }
        e.push(PEdge { l: r.below(p.edge_labels as usize) as EL, s: src, t: tgt });
    }
    r.shuffle(&mut avail);
    let t = avail;
    let g = POh { w, e, s, t };
    // shuffle numbering
    let np = r.perm(g.w.len());
    let eo = r.perm(g.e.len());
    g.renumber(&np, &eo)
}

/// lax diagram with pending unifications; `consistent` = every pair joins equally labelled nodes
pub fn lax(r: &mut Rng, p: &OhParams, max_pairs: usize, consistent: bool) -> PL {
    let g = oh(r, p);
    let mut q = vec![];
    let n = g.w.len();
    if n > 0 {
        for _ in 0..r.small(max_pairs) {
            let a = r.below(n);
            let b = if consistent {
                let c: Vec<usize> = (0..n).filter(|&i| g.w[i] == g.w[a]).collect();
                *r.pick(&c)
            } else {
                r.below(n)
            };
            q.push((a, b));
        }
    }
    PLax { w: g.w, e: g.e, s: g.s, t: g.t, q }
}

/// hostile fixed shapes shared by several monitors
pub fn corpus_shapes() -> Vec<(&'static str, P)> {
    let e = |l: EL, s: &[usize], t: &[usize]| PEdge { l, s: s.to_vec(), t: t.to_vec() };
    vec![
        ("empty", POh { w: vec![], e: vec![], s: vec![], t: vec![] }),
        ("one_node_no_iface", POh { w: vec![0], e: vec![], s: vec![], t: vec![] }),
        ("identity1", POh { w: vec![0], e: vec![], s: vec![0], t: vec![0] }),
        ("repeated_boundary", POh { w: vec![0, 1], e: vec![], s: vec![0, 0, 1], t: vec![1, 0, 0] }),
        ("shared_boundary", POh { w: vec![0], e: vec![e(0, &[0], &[0])], s: vec![0], t: vec![0, 0] }),
        ("zero_arity_edge", POh { w: vec![0], e: vec![e(1, &[], &[])], s: vec![0], t: vec![0] }),
        ("node_repeated_in_edge", POh { w: vec![0, 0], e: vec![e(0, &[0, 0, 0], &[1, 1])], s: vec![0], t: vec![1] }),
        ("isolated_node", POh { w: vec![0, 1, 0], e: vec![e(0, &[0], &[1])], s: vec![0], t: vec![1] }),
        ("self_loop", POh { w: vec![0], e: vec![e(0, &[0], &[0])], s: vec![], t: vec![] }),
        ("two_cycle_with_tail", POh {
            w: vec![0, 0, 0, 0],
            e: vec![e(0, &[0], &[1]), e(1, &[1], &[0]), e(2, &[1], &[2]), e(0, &[2], &[3])],
            s: vec![], t: vec![3] }),
        ("multiplicity3", POh { w: vec![0, 0], e: vec![e(0, &[0], &[1]), e(1, &[1, 1, 1], &[])], s: vec![0], t: vec![] }),
        ("fanout_multi", POh { w: vec![0, 0], e: vec![e(0, &[0], &[1, 1, 1])], s: vec![0], t: vec![1] }),
        ("parallel_edges", POh { w: vec![0, 0], e: vec![e(0, &[0], &[1]), e(0, &[0], &[1]), e(0, &[0], &[1])], s: vec![0], t: vec![1] }),
        ("chain3", POh { w: vec![0, 1, 0, 1], e: vec![e(0, &[0], &[1]), e(1, &[1], &[2]), e(2, &[2], &[3])], s: vec![0], t: vec![3] }),
        ("diamond", POh { w: vec![0; 5], e: vec![e(0, &[0], &[1, 2]), e(1, &[1], &[3]), e(2, &[2], &[4]), e(3, &[3, 4], &[])], s: vec![0], t: vec![] }),
        ("unbalanced_depths", POh { w: vec![0; 5], e: vec![e(0, &[0], &[1]), e(1, &[1], &[2]), e(2, &[2], &[3]), e(3, &[0, 3], &[4])], s: vec![0], t: vec![4] }),
    ]
}

/// Pairs that merge `n = 2^k` points in balanced tournament order (singletons pairwise, then the
/// pairs pairwise, ...), with random orientation of every pair and a random renumbering of the
/// points. Builds union-find trees of height k in implementations that link by rank.
pub fn tournament_pairs(r: &mut Rng, k: u32) -> (usize, Vec<(usize, usize)>) {
    let n = 1usize << k;
    let np = r.perm(n);
    let mut pairs = vec![];
    for level in 0..k {
        let stride = 1usize << level;
        let mut i = 0;
        while i + stride < n {
            let (a, b) = (np[i], np[i + stride]);
            if r.chance(1, 2) { pairs.push((a, b)) } else { pairs.push((b, a)) }
            i += 2 * stride;
        }
    }
    (n, pairs)
}
