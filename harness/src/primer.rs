//! Process-state primer (DESIGN 1.2, "histories across calls"): a battery of *large* library calls made on the
//! monitored thread at the start of a shard and again every few thousand cases, results discarded. The library
//! documents no state that outlives a call, so nothing the primer does may change what a later call returns;
//! the monitor's ordinary cases that follow are the oracle. (A change that keeps a scratch table, memo or
//! cache alive between calls typically only misbehaves after a call that was much larger than, or shaped
//! differently from, the current one -- sizes just above 4096 and 65536 entries here, links between the
//! lowest-numbered nodes, ascending and descending size ladders.)

use crate::conv::*;
use crate::ctx::*;
use crate::model::*;
use crate::rng::Rng;
use open_hypergraphs::array::vec::*;
use open_hypergraphs::category::*;
use open_hypergraphs::finite_function::FiniteFunction;
use open_hypergraphs::lax;

fn discrete(n: usize, s: Vec<usize>, t: Vec<usize>) -> POh<u32, u64> {
    POh { w: vec![0u32; n], e: vec![], s, t }
}

pub fn prime(ctx: &mut Ctx, r: &mut Rng) {
    ctx.count("primer:runs");
    // the four parts in a rotated order: a later part must not always be the one that (in a changed library) happens
    // to tidy up what an earlier one left behind
    let first = r.below(4);
    for k in 0..4 {
        part(ctx, r, (first + k) % 4);
    }
}

fn part(ctx: &mut Ctx, r: &mut Rng, which: usize) {
    let round = r.below(4);
    if which == 0 {
    // (1) a strict composition over more than 2^16 nodes that glues low-numbered nodes (connected components /
    //     coequalizer / scatter of labels at that size), in both orientations
    let res = guard(|| {
        let n = 65_600 + r.below(5_000);
        let k = 2 + r.below(3);
        let left = discrete(n, vec![], (0..k).collect());
        let right = discrete(k, vec![r.below(k); k], (0..k).collect());
        let (l, rr) = (to_strict(&left), to_strict(&right));
        let c = l.compose(&rr).map(|x| x.h.w.0.len());
        let right2 = discrete(n, (0..k).rev().collect(), vec![]);
        let left2 = discrete(k, vec![], vec![0; k]);
        let c2 = to_strict(&left2).compose(&to_strict(&right2)).map(|x| x.h.w.0.len());
        (c, c2)
    });
    if res.is_err() {
        ctx.count("primer:library_panics");
    }
    }
    if which == 1 {
    // (2) size ladders of the index-producing primitives just above one and two pages of 4096 entries
    let res = guard(|| {
        let mut total = 0usize;
        let a = 4_100 + r.below(900);
        for n in [a, a + 1_000, a - 7, 8_200 + r.below(100), 8_193, 3_000 + round, 70_000 - round] {
            let id = FiniteFunction::<VecKind>::identity(n);
            total += id.table.0.len();
            let t = FiniteFunction::<VecKind>::terminal(n);
            total += t.table.0.len();
            let inj = id.inject0(3).table.0.len();
            total += inj;
        }
        total
    });
    if res.is_err() {
        ctx.count("primer:library_panics");
    }
    }
    if which == 2 {
    // (3) coequalizers: a long chain in descending order, a star on node 0, at a few thousand points
    let res = guard(|| {
        let n = 2_000 + r.below(3_000);
        let chain_a: Vec<usize> = (1..n).rev().collect();
        let chain_b: Vec<usize> = (0..n - 1).rev().collect();
        let q1 = ff(chain_a, n).coequalizer(&ff(chain_b, n)).map(|q| q.target);
        let star_a: Vec<usize> = vec![0; n / 2];
        let star_b: Vec<usize> = (0..n / 2).map(|i| 2 * i).collect();
        let q2 = ff(star_a, n).coequalizer(&ff(star_b, n)).map(|q| q.target);
        (q1, q2)
    });
    if res.is_err() {
        ctx.count("primer:library_panics");
    }
    }
    if which == 3 {
    // (4) the lax side: a tensor whose right operand carries a few dozen pending pairs, quotients of both sizes
    let res = guard(|| {
        let n = 40 + r.below(60);
        let mk = |n: usize, pairs: usize, r: &mut Rng| PLax::<u32, u64> {
            w: vec![1u32; n],
            e: vec![PEdge { l: 5u64, s: vec![0, n - 1], t: vec![n / 2] }],
            s: vec![0, 1],
            t: vec![n - 1],
            q: (0..pairs).map(|_| (r.below(n), r.below(n))).collect(),
        };
        let (pa, pb) = (mk(n, 3, r), mk(n + 17, 20 + r.below(30), r));
        let (a, b) = (to_lax(&pa), to_lax(&pb));
        let mut t = a.tensor(&b);
        let t2 = b.tensor(&a);
        t.quotient().ok();
        let mut big = to_lax(&mk(5_000 + r.below(2_000), 300, r));
        big.quotient().ok();
        let mut small = t2;
        small.quotient().ok();
        small.hypergraph.nodes.len()
    });
    if res.is_err() {
        ctx.count("primer:library_panics");
    }
    }
}

#[allow(unused)]
fn _types(_: lax::NodeId) {}
