//! Scalar-definition oracles for the array interface, written once as a macro so that the same
//! checker runs on the Vec backend (property C07) and on the adversarial backend of C20 (as its
//! soundness guard: a test backend that breaks the contract makes the run inconclusive).

/// Expands to `pub fn check(ctx, r, fixed: Option<Vec<usize>>, tag: &str)`.
/// `$K` = array kind, `$A` = its array newtype (`$A<T>(pub Vec<T>)`).
#[macro_export]
macro_rules! array_contract_checks {
    ($modname:ident, $K:ty, $A:ident) => {
        pub mod $modname {
            use super::*;
            use open_hypergraphs::array::{Array, NaturalArray, OrdArray};
            use serde_json::json;
            use $crate::ctx::*;
            use $crate::model::{components, same_partition};
            use $crate::rng::Rng;

            type K = $K;
            type Ix = $A<usize>;

            fn a(v: &[usize]) -> Ix {
                $A(v.to_vec())
            }
            fn s(v: &[usize]) -> $A<String> {
                $A(v.iter().map(|x| format!("e{}", x)).collect())
            }
            fn sv(v: &[usize]) -> Vec<String> {
                v.iter().map(|x| format!("e{}", x)).collect()
            }

            macro_rules! call {
                ($ctx:expr, $api:expr, $input:expr, $e:expr) => {{
                    let r = guard(|| $e);
                    must_return($ctx, $api, "any", r, || $input.clone())
                }};
            }

            /// element type whose `+` is not commutative (concatenation) and whose `-` strips a suffix
            #[derive(Clone, Debug, PartialEq)]
            pub struct Word(pub String);
            impl std::ops::Add for Word {
                type Output = Word;
                fn add(self, rhs: Word) -> Word {
                    Word(format!("{}{}", self.0, rhs.0))
                }
            }
            impl std::ops::Sub for Word {
                type Output = Word;
                fn sub(self, rhs: Word) -> Word {
                    Word(self.0.strip_suffix(rhs.0.as_str()).unwrap_or("?").to_string())
                }
            }

            /// the generic primitives on a zero-sized element type and on one with a non-commutative `+`
            pub fn exotic_element_types(ctx: &mut Ctx, n: usize, m: usize, tag: &str) {
                let p = |api: &str, clause: &str| format!("{}{}/{}/value/any", tag, api, clause);
                let input = json!({"unit_array_lengths": [n, m]});
                let (un, um): ($A<()>, $A<()>) = ($A(vec![(); n]), $A(vec![(); m]));
                if let Some(l) = call!(ctx, "len<()>", input, (<$A<()> as Array<K, ()>>::len(&un), <$A<()> as Array<K, ()>>::is_empty(&un))) {
                    ctx.check(l == (n, n == 0), &p("len<()>", "count"), || json!({"input": input, "observed": format!("{:?}", l)}));
                }
                if let Some(e) = call!(ctx, "eq<()>", input, un == um) {
                    ctx.check(e == (n == m), &p("eq<()>", "equal-iff-same-length"), || json!({"input": input, "observed": e}));
                }
                if let Some(x) = call!(ctx, "from_slice<()>", input, <$A<()> as Array<K, ()>>::from_slice(&vec![(); n])) {
                    ctx.check(x.0.len() == n, &p("from_slice<()>", "copy"), || json!({"input": input, "observed_len": x.0.len()}));
                }
                if let Some(x) = call!(ctx, "concatenate<()>", input, un.concatenate(&um)) {
                    ctx.check(x.0.len() == n + m, &p("concatenate<()>", "append"), || json!({"input": input, "observed_len": x.0.len()}));
                }
                if let Some(x) = call!(ctx, "fill<()>", input, <$A<()> as Array<K, ()>>::fill((), m)) {
                    ctx.check(x.0.len() == m, &p("fill<()>", "constant"), || json!({"input": input, "observed_len": x.0.len()}));
                }
                // gather from a unit array: as many elements as indices (also none from an empty array)
                let idx: Vec<usize> = if n == 0 { vec![] } else { (0..m).map(|i| (i * 7 + 3) % n).collect() };
                if let Some(x) = call!(ctx, "gather<()>", input, un.gather(&idx)) {
                    ctx.check(x.0.len() == idx.len(), &p("gather<()>", "x[i]=self[idx[i]]"), || json!({"input": input, "observed_len": x.0.len()}));
                }
                if let Some(x) = call!(ctx, "get_range<()>", input, (un.get_range(..).len(), un.get_range(n / 2..).len())) {
                    ctx.check(x == (n, n - n / 2), &p("get_range<()>", "slice"), || json!({"input": input, "observed": format!("{:?}", x)}));
                }
                if n > 0 {
                    let sidx: Vec<usize> = (0..n).map(|i| (i * 5 + 1) % (n + 2)).collect();
                    if let Some(x) = call!(ctx, "scatter<()>", input, un.scatter(&sidx, n + 2)) {
                        ctx.check(x.0.len() == n + 2, &p("scatter<()>", "x[idx[i]]=self[i]"), || json!({"input": input, "observed_len": x.0.len()}));
                    }
                }
                if let Some(pm) = call!(ctx, "argsort<()>", input, un.argsort()) {
                    let mut sorted = pm.0.clone();
                    sorted.sort();
                    ctx.check(sorted == (0..n).collect::<Vec<_>>(), &p("argsort<()>", "sorting-permutation"), || json!({"input": input, "observed": pm.0}));
                }
                // element-wise + and - on a type whose + does not commute
                let wa: Vec<Word> = (0..n).map(|i| Word(format!("a{}", i))).collect();
                let wb: Vec<Word> = (0..n).map(|i| Word(format!("b{}", i * i))).collect();
                if let Some(x) = call!(ctx, "add<Word>", input, $A(wa.clone()) + $A(wb.clone())) {
                    let want: Vec<Word> = wa.iter().zip(wb.iter()).map(|(a, b)| a.clone() + b.clone()).collect();
                    ctx.check(x.0 == want, &p("add<Word>", "elementwise-in-order"), || json!({"input": input, "observed": format!("{:?}", x.0)}));
                }
                if let Some(x) = call!(ctx, "sub<Word>", input, ($A(wa.clone()) + $A(wb.clone())) - $A(wb.clone())) {
                    ctx.check(x.0 == wa, &p("sub<Word>", "elementwise-in-order"), || json!({"input": input, "observed": format!("{:?}", x.0)}));
                }
            }

            /// unary primitives on one array
            pub fn unary(ctx: &mut Ctx, v: &[usize], tag: &str) {
                let input = json!({"array": v});
                let n = v.len();
                if n == 0 {
                    ctx.class("empty_array");
                }
                if n > 0 && v.iter().all(|&x| x == v[0]) {
                    ctx.class("all_equal_keys");
                }
                let p = |api: &str, clause: &str| format!("{}{}/{}/value/any", tag, api, clause);

                if let Some(l) = call!(ctx, "len", input, <Ix as Array<K, usize>>::len(&a(v))) {
                    ctx.check(l == n && <Ix as Array<K, usize>>::is_empty(&a(v)) == (n == 0), &p("len", "count"), || json!({"input": input, "observed": l}));
                }
                if let Some(e) = call!(ctx, "empty", input, <Ix as Array<K, usize>>::empty()) {
                    ctx.check(e.0.is_empty(), &p("empty", "length-0"), || json!({"observed": e.0}));
                }
                if let Some(e) = call!(ctx, "from_slice", input, <Ix as Array<K, usize>>::from_slice(v)) {
                    ctx.check(e.0 == v, &p("from_slice", "copy"), || json!({"input": input, "observed": e.0}));
                }
                if let Some(e) = call!(ctx, "from_slice<T>", input, <$A<String> as Array<K, String>>::from_slice(&sv(v))) {
                    ctx.check(e.0 == sv(v), &p("from_slice<T>", "copy"), || json!({"input": input, "observed": e.0}));
                }
                // max, sum, cumulative sum
                if let Some(m) = call!(ctx, "max", input, a(v).max()) {
                    ctx.check(m == v.iter().cloned().max(), &p("max", "maximum"), || json!({"input": input, "observed": m}));
                }
                let mut cs = vec![0usize];
                for x in v {
                    cs.push(cs.last().unwrap() + x);
                }
                if let Some(c) = call!(ctx, "cumulative_sum", input, a(v).cumulative_sum()) {
                    ctx.check(c.0 == cs, &p("cumulative_sum", "prefix-sums"), || json!({"input": input, "observed": c.0, "expected": cs}));
                }
                if let Some(c) = call!(ctx, "sum", input, a(v).sum()) {
                    ctx.check(c == *cs.last().unwrap(), &p("sum", "total"), || json!({"input": input, "observed": c}));
                }
                // argsort: a permutation whose gather is monotone
                if let Some(pm) = call!(ctx, "argsort", input, a(v).argsort()) {
                    let mut seen = vec![false; n];
                    let mut ok = pm.0.len() == n;
                    for &i in &pm.0 {
                        if i >= n || seen[i] {
                            ok = false;
                            break;
                        }
                        seen[i] = true;
                    }
                    if ok {
                        ok = pm.0.windows(2).all(|w| v[w[0]] <= v[w[1]]);
                    }
                    ctx.check(ok, &p("argsort", "sorting-permutation"), || json!({"input": input, "observed": pm.0}));
                }
                if let Some(pm) = call!(ctx, "argsort<T>", input, s(v).argsort()) {
                    let keys = sv(v);
                    let mut sorted = pm.0.clone();
                    sorted.sort();
                    let ok = sorted == (0..n).collect::<Vec<_>>() && pm.0.windows(2).all(|w| keys[w[0]] <= keys[w[1]]);
                    ctx.check(ok, &p("argsort<T>", "sorting-permutation"), || json!({"input": input, "observed": pm.0}));
                }
                // bincount / sparse_bincount / zero
                let size = v.iter().cloned().max().map(|m| m + 1).unwrap_or(0) + 1;
                let mut want = vec![0usize; size];
                for &x in v {
                    want[x] += 1;
                }
                if let Some(c) = call!(ctx, "bincount", input, a(v).bincount(size)) {
                    ctx.check(c.0 == want, &p("bincount", "counts"), || json!({"input": input, "size": size, "observed": c.0, "expected": want}));
                }
                // the tight bound (size = max+1) and, for the empty array, size 0
                let tight = size - 1;
                if let Some(c) = call!(ctx, "bincount", input, a(v).bincount(tight)) {
                    ctx.check(c.0 == want[..tight], &p("bincount", "counts-tight-size"), || json!({"input": input, "size": tight, "observed": c.0}));
                }
                if let Some((keys, counts)) = call!(ctx, "sparse_bincount", input, a(v).sparse_bincount()) {
                    let mut ok = keys.0.len() == counts.0.len();
                    let mut seen = std::collections::BTreeSet::new();
                    if ok {
                        for (k, c) in keys.0.iter().zip(counts.0.iter()) {
                            if !seen.insert(*k) || *k >= size || want[*k] != *c || *c == 0 {
                                ok = false;
                            }
                        }
                        let distinct = want.iter().filter(|&&c| c > 0).count();
                        ok = ok && seen.len() == distinct;
                    }
                    ctx.check(ok, &p("sparse_bincount", "each-value-once-with-count"), || json!({"input": input, "observed_keys": keys.0, "observed_counts": counts.0}));
                }
                if let Some(z) = call!(ctx, "zero", input, a(v).zero()) {
                    let mut got = z.0.clone();
                    got.sort();
                    let wantz: Vec<usize> = (0..n).filter(|&i| v[i] == 0).collect();
                    ctx.check(got == wantz, &p("zero", "indices-of-zeros"), || json!({"input": input, "observed": z.0, "expected_as_set": wantz}));
                }
                // segmented arange (self = sizes)
                if let Some(x) = call!(ctx, "segmented_arange", input, a(v).segmented_arange()) {
                    let want: Vec<usize> = v.iter().flat_map(|&k| 0..k).collect();
                    ctx.check(x.0 == want, &p("segmented_arange", "concatenated-ranges"), || json!({"input": input, "observed": x.0, "expected": want}));
                }
                // range forms in bounds
                let arr = a(v);
                let sarr = s(v);
                let svv = sv(v);
                let mut bounds: Vec<(usize, usize)> = vec![];
                for lo in 0..=n.min(3) {
                    for hi in lo..=n.min(4) {
                        bounds.push((lo, hi));
                    }
                }
                if n > 4 {
                    // bounds anywhere in the array, up to its end
                    let h = hash_of(&v) as usize;
                    let x = h % (n + 1);
                    let y = (h / 7919) % (n + 1);
                    bounds.extend([(n / 2, n), (n / 3, 2 * n / 3), (n - 1, n), (n, n), (x.min(y), x.max(y))]);
                }
                for (lo, hi) in bounds {
                    {
                        // tuple-of-bounds forms incl. an excluded start; the same forms on a non-Copy element type
                        use std::ops::Bound::*;
                        let inp = json!({"array": v, "lo": lo, "hi": hi});
                        if lo < hi {
                            if let Some(x) = call!(ctx, "to_range", inp, (arr.to_range((Excluded(lo), Excluded(hi))), arr.to_range((Excluded(lo), Unbounded)), arr.to_range((Excluded(lo), Included(hi - 1))))) {
                                ctx.check(x.0 == (lo + 1..hi) && x.1 == (lo + 1..n) && x.2 == (lo + 1..hi), &p("to_range", "excluded-start-normalised"), || json!({"input": inp, "observed": format!("{:?}", x)}));
                            }
                            if let Some(x) = call!(ctx, "get_range", inp, arr.get_range((Excluded(lo), Excluded(hi))).to_vec()) {
                                ctx.check(x == v[lo + 1..hi], &p("get_range", "excluded-start-slice"), || json!({"input": inp, "observed": x}));
                            }
                        }
                        if let Some(x) = call!(ctx, "get_range<T>", inp, (sarr.get_range(..).to_vec(), sarr.get_range(lo..).to_vec(), sarr.get_range(..hi).to_vec(), sarr.get_range(lo..hi).to_vec())) {
                            ctx.check(x.0 == svv && x.1 == svv[lo..] && x.2 == svv[..hi] && x.3 == svv[lo..hi], &p("get_range<T>", "slice"), || json!({"input": inp, "observed": format!("{:?}", x)}));
                        }
                        if hi > lo {
                            if let Some(x) = call!(ctx, "get_range<T>", inp, (sarr.get_range(..=hi - 1).to_vec(), sarr.get_range(lo..=hi - 1).to_vec())) {
                                ctx.check(x.0 == svv[..hi] && x.1 == svv[lo..hi], &p("get_range<T>", "inclusive-slice"), || json!({"input": inp, "observed": format!("{:?}", x)}));
                            }
                        }
                        // set_range through every form (the patch has the length of the addressed range)
                        let forms: [(&str, std::ops::Range<usize>); 6] = [("..", 0..n), ("a..", lo..n), ("..b", 0..hi), ("a..b", lo..hi), ("..=b", 0..hi), ("a..=b", lo..hi)];
                        for (form, rg) in forms {
                            if form.contains('=') && hi == 0 {
                                continue;
                            }
                            if form == "a..=b" && lo >= hi {
                                continue;
                            }
                            let patch: Vec<usize> = (0..rg.len()).map(|k| 1000 + k).collect();
                            let mut want = v.to_vec();
                            want[rg.clone()].clone_from_slice(&patch);
                            let inp = json!({"array": v, "form": form, "lo": lo, "hi": hi});
                            let res = call!(ctx, "set_range", inp, {
                                let mut b = a(v);
                                let mut bs = s(v);
                                let (pa, ps) = (a(&patch), s(&patch));
                                match form {
                                    ".." => { b.set_range(.., &pa); bs.set_range(.., &ps); }
                                    "a.." => { b.set_range(lo.., &pa); bs.set_range(lo.., &ps); }
                                    "..b" => { b.set_range(..hi, &pa); bs.set_range(..hi, &ps); }
                                    "a..b" => { b.set_range(lo..hi, &pa); bs.set_range(lo..hi, &ps); }
                                    "..=b" => { b.set_range(..=hi - 1, &pa); bs.set_range(..=hi - 1, &ps); }
                                    _ => { b.set_range(lo..=hi - 1, &pa); bs.set_range(lo..=hi - 1, &ps); }
                                }
                                (b, bs)
                            });
                            if let Some((b, bs)) = res {
                                ctx.check(b.0 == want && bs.0 == sv(&want), &p("set_range", "contiguous-write-all-forms"), || json!({"input": inp, "observed": b.0, "expected": want}));
                            }
                        }
                    }
                    {
                        let inp = json!({"array": v, "lo": lo, "hi": hi});
                        if let Some(x) = call!(ctx, "to_range", inp, (arr.to_range(..), arr.to_range(lo..), arr.to_range(..hi), arr.to_range(lo..hi))) {
                            ctx.check(x.0 == (0..n) && x.1 == (lo..n) && x.2 == (0..hi) && x.3 == (lo..hi), &p("to_range", "normalised"), || json!({"input": inp, "observed": format!("{:?}", x)}));
                        }
                        if hi > 0 && lo <= hi - 1 {
                            if let Some(x) = call!(ctx, "to_range", inp, (arr.to_range(..=hi - 1), arr.to_range(lo..=hi - 1))) {
                                ctx.check(x.0 == (0..hi) && x.1 == (lo..hi), &p("to_range", "inclusive-normalised"), || json!({"input": inp, "observed": format!("{:?}", x)}));
                            }
                            if let Some(x) = call!(ctx, "get_range", inp, (arr.get_range(..=hi - 1).to_vec(), arr.get_range(lo..=hi - 1).to_vec())) {
                                ctx.check(x.0 == v[..hi] && x.1 == v[lo..hi], &p("get_range", "inclusive-slice"), || json!({"input": inp, "observed": format!("{:?}", x)}));
                            }
                        }
                        if let Some(x) = call!(ctx, "get_range", inp, (arr.get_range(..).to_vec(), arr.get_range(lo..).to_vec(), arr.get_range(..hi).to_vec(), arr.get_range(lo..hi).to_vec())) {
                            ctx.check(x.0 == v && x.1 == v[lo..] && x.2 == v[..hi] && x.3 == v[lo..hi], &p("get_range", "slice"), || json!({"input": inp, "observed": format!("{:?}", x)}));
                        }
                    }
                }
                for i in 0..n {
                    let inp = json!({"array": v, "i": i});
                    if let Some(x) = call!(ctx, "get", inp, arr.get(i)) {
                        ctx.check(x == v[i], &p("get", "element"), || json!({"input": inp, "observed": x}));
                    }
                    if i < 8 || i + 2 >= n {
                        if let Some(x) = call!(ctx, "get<T>", inp, sarr.get(i)) {
                            ctx.check(x == svv[i], &p("get<T>", "element"), || json!({"input": inp, "observed": x}));
                        }
                    }
                }
            }

            /// primitives with several arguments, randomised
            /// returns a hash of the generated base inputs when they are non-empty (conservative distinctness key)
            pub fn random(ctx: &mut Ctx, r: &mut Rng, tag: &str) -> Option<u64> {
                let p = |api: &str, clause: &str| format!("{}{}/{}/value/any", tag, api, clause);
                // mostly tiny arrays; one case in eight uses lengths / values / run lengths up to 40, and the
                // thorough tier occasionally goes to 200
                let huge = ctx.thorough && r.chance(1, 50);
                let big = huge || r.chance(1, 8);
                // and one case in 300 uses arrays of several hundred elements (block-wise implementations)
                let large = r.chance(1, 300) && !cfg!(miri);
                let maxlen = if large { 1400 } else if huge { 200 } else if big { 40 } else { 6 };
                if large {
                    ctx.class("arrays_of_several_hundred_elements");
                }
                let n = if large { r.range(256, maxlen) } else { r.small(maxlen) };
                // values: small, up to 40, and for the large arrays sometimes up to 700 (runs / segments longer than 256)
                let bound = if large && r.chance(1, 2) { r.range(200, 700) } else if big { r.range(1, 40) } else { r.range(1, 5) };
                if big {
                    ctx.class("arrays_up_to_40");
                }
                let v: Vec<usize> = r.vec_below(n, bound);
                let m = if large { r.range(256, maxlen) } else { r.small(maxlen) };
                let u: Vec<usize> = r.vec_below(m, bound);
                let variant = r.below(12);
                let key = if v.is_empty() { None } else { Some(hash_of(&(variant, &v, &u))) };
                match variant {
                    0 => {
                        let input = json!({"a": v, "b": u});
                        let mut want = v.clone();
                        want.extend(u.iter().cloned());
                        if let Some(x) = call!(ctx, "concatenate", input, a(&v).concatenate(&a(&u))) {
                            ctx.check(x.0 == want, &p("concatenate", "append"), || json!({"input": input, "observed": x.0}));
                        }
                        if let Some(x) = call!(ctx, "concatenate<T>", input, s(&v).concatenate(&s(&u))) {
                            ctx.check(x.0 == sv(&want), &p("concatenate<T>", "append"), || json!({"input": input, "observed": x.0}));
                        }
                        let k = r.small(5);
                        let c = r.below(9);
                        let input = json!({"x": c, "n": k});
                        if let Some(x) = call!(ctx, "fill", input, <Ix as Array<K, usize>>::fill(c, k)) {
                            ctx.check(x.0 == vec![c; k], &p("fill", "constant"), || json!({"input": input, "observed": x.0}));
                        }
                        if let Some(x) = call!(ctx, "fill<T>", input, <$A<String> as Array<K, String>>::fill(format!("e{}", c), k)) {
                            ctx.check(x.0 == vec![format!("e{}", c); k], &p("fill<T>", "constant"), || json!({"input": input, "observed": x.0}));
                        }
                        exotic_element_types(ctx, n.min(300), m.min(300), tag);
                    }
                    1 => {
                        // gather
                        let idx: Vec<usize> = if n == 0 { vec![] } else { r.vec_below(m, n) };
                        if idx.is_empty() {
                            ctx.class("empty_index_array");
                        }
                        let input = json!({"array": v, "idx": idx});
                        let want: Vec<usize> = idx.iter().map(|&i| v[i]).collect();
                        if let Some(x) = call!(ctx, "gather", input, a(&v).gather(&idx)) {
                            ctx.check(x.0 == want, &p("gather", "x[i]=self[idx[i]]"), || json!({"input": input, "observed": x.0}));
                        }
                        if let Some(x) = call!(ctx, "gather<T>", input, s(&v).gather(&idx)) {
                            ctx.check(x.0 == sv(&want), &p("gather<T>", "x[i]=self[idx[i]]"), || json!({"input": input, "observed": x.0}));
                        }
                    }
                    2 => {
                        // scatter: x[idx[i]] = self[i]; any written value accepted where indices repeat
                        let size = r.range(1, 7);
                        let idx: Vec<usize> = r.vec_below(n, size);
                        let input = json!({"array": v, "idx": idx, "n": size});
                        if n == 0 {
                            ctx.class("scatter_of_empty_array");
                        }
                        let judge = |out: &[String]| -> bool {
                            if n == 0 {
                                return true; // no filler value exists; length not demanded
                            }
                            if out.len() != size {
                                return false;
                            }
                            for j in 0..size {
                                let writers: Vec<String> = (0..n).filter(|&i| idx[i] == j).map(|i| format!("e{}", v[i])).collect();
                                if !writers.is_empty() && !writers.contains(&out[j]) {
                                    return false;
                                }
                            }
                            true
                        };
                        if let Some(x) = call!(ctx, "scatter<T>", input, s(&v).scatter(&idx, size)) {
                            ctx.check(judge(&x.0), &p("scatter<T>", "x[idx[i]]=self[i]"), || json!({"input": input, "observed": x.0}));
                        }
                        if let Some(x) = call!(ctx, "scatter", input, a(&v).scatter(&idx, size)) {
                            let out: Vec<String> = x.0.iter().map(|e| format!("e{}", e)).collect();
                            ctx.check(judge(&out), &p("scatter", "x[idx[i]]=self[i]"), || json!({"input": input, "observed": x.0}));
                        }
                    }
                    3 => {
                        // scatter_assign / scatter_assign_constant / set_range
                        let size = r.range(1, 7);
                        let base: Vec<usize> = r.vec_below(size, 4).into_iter().map(|x| x + 100).collect();
                        let idx: Vec<usize> = r.vec_below(n, size);
                        let input = json!({"base": base, "ixs": idx, "values": v});
                        let res = call!(ctx, "scatter_assign", input, {
                            let mut b = a(&base);
                            b.scatter_assign(&a(&idx), a(&v));
                            b
                        });
                        if let Some(x) = res {
                            let mut ok = x.0.len() == size;
                            for j in 0..size.min(x.0.len()) {
                                let writers: Vec<usize> = (0..n).filter(|&i| idx[i] == j).map(|i| v[i]).collect();
                                if writers.is_empty() {
                                    ok = ok && x.0[j] == base[j];
                                } else {
                                    ok = ok && writers.contains(&x.0[j]);
                                }
                            }
                            ctx.check(ok, &p("scatter_assign", "self[ixs[i]]=values[i]"), || json!({"input": input, "observed": x.0}));
                        }
                        let res = call!(ctx, "scatter_assign<T>", input, {
                            let mut b = s(&base);
                            b.scatter_assign(&a(&idx), s(&v));
                            b
                        });
                        if let Some(x) = res {
                            let mut ok = x.0.len() == size;
                            for j in 0..size.min(x.0.len()) {
                                let writers: Vec<String> = (0..n).filter(|&i| idx[i] == j).map(|i| format!("e{}", v[i])).collect();
                                if writers.is_empty() {
                                    ok = ok && x.0[j] == format!("e{}", base[j]);
                                } else {
                                    ok = ok && writers.contains(&x.0[j]);
                                }
                            }
                            ctx.check(ok, &p("scatter_assign<T>", "self[ixs[i]]=values[i]"), || json!({"input": input, "observed": x.0}));
                        }
                        let res = call!(ctx, "scatter_assign_constant<T>", input, {
                            let mut b = s(&base);
                            b.scatter_assign_constant(&a(&idx), "c".to_string());
                            b
                        });
                        if let Some(x) = res {
                            let want: Vec<String> = (0..size).map(|j| if idx.contains(&j) { "c".to_string() } else { format!("e{}", base[j]) }).collect();
                            ctx.check(x.0 == want, &p("scatter_assign_constant<T>", "self[ixs]=c"), || json!({"input": input, "observed": x.0}));
                        }
                        let c = 7usize;
                        let res = call!(ctx, "scatter_assign_constant", input, {
                            let mut b = a(&base);
                            b.scatter_assign_constant(&a(&idx), c);
                            b
                        });
                        if let Some(x) = res {
                            let want: Vec<usize> = (0..size).map(|j| if idx.contains(&j) { c } else { base[j] }).collect();
                            ctx.check(x.0 == want, &p("scatter_assign_constant", "self[ixs]=c"), || json!({"input": input, "observed": x.0, "expected": want}));
                        }
                        let lo = r.below(size + 1);
                        let hi = r.range(lo, size);
                        let patch: Vec<usize> = (0..hi - lo).map(|k| 50 + k).collect();
                        let input = json!({"base": base, "lo": lo, "hi": hi});
                        let res = call!(ctx, "set_range", input, {
                            let mut b = a(&base);
                            b.set_range(lo..hi, &a(&patch));
                            b
                        });
                        if let Some(x) = res {
                            let mut want = base.clone();
                            want[lo..hi].clone_from_slice(&patch);
                            ctx.check(x.0 == want, &p("set_range", "contiguous-write"), || json!({"input": input, "observed": x.0}));
                        }
                    }
                    4 => {
                        // scatter_sub_assign (repeats accumulate); no underflow by construction
                        let size = r.range(1, 6);
                        let idx: Vec<usize> = r.vec_below(n, size);
                        let rhs: Vec<usize> = r.vec_below(n, 3);
                        let mut base = vec![0usize; size];
                        for (i, &j) in idx.iter().enumerate() {
                            base[j] += rhs[i];
                        }
                        let extra: Vec<usize> = r.vec_below(size, 3);
                        for j in 0..size {
                            base[j] += extra[j];
                        }
                        let input = json!({"base": base, "ixs": idx, "rhs": rhs});
                        let res = call!(ctx, "scatter_sub_assign", input, {
                            let mut b = a(&base);
                            b.scatter_sub_assign(&a(&idx), &a(&rhs));
                            b
                        });
                        if let Some(x) = res {
                            ctx.check(x.0 == extra, &p("scatter_sub_assign", "self[ixs[i]]-=rhs[i]"), || json!({"input": input, "observed": x.0, "expected": extra}));
                        }
                    }
                    5 => {
                        // arange / repeat
                        let start = r.below(5);
                        let stop = start + r.small(6);
                        let input = json!({"start": start, "stop": stop});
                        if let Some(x) = call!(ctx, "arange", input, <Ix as NaturalArray<K>>::arange(&start, &stop)) {
                            ctx.check(x.0 == (start..stop).collect::<Vec<_>>(), &p("arange", "range"), || json!({"input": input, "observed": x.0}));
                        }
                        let counts: Vec<usize> = r.vec_below(n, if big { 40 } else { 4 });
                        if counts.iter().any(|&c| c > 16) {
                            ctx.class("repeat_run_longer_than_16");
                        }
                        if counts.contains(&0) {
                            ctx.class("repeat_count_0");
                        }
                        let input = json!({"counts": counts, "values": v});
                        if let Some(x) = call!(ctx, "repeat", input, a(&counts).repeat(&v)) {
                            let want: Vec<usize> = counts.iter().zip(v.iter()).flat_map(|(&k, &x)| std::iter::repeat(x).take(k)).collect();
                            ctx.check(x.0 == want, &p("repeat", "each-element-k-times"), || json!({"input": input, "observed": x.0, "expected": want}));
                        }
                    }
                    6 => {
                        // quot_rem / mul_constant_add / add / sub / scalar + array
                        let d = r.range(1, 5);
                        let input = json!({"array": v, "d": d});
                        if let Some((q, rm)) = call!(ctx, "quot_rem", input, a(&v).quot_rem(d)) {
                            let ok = q.0 == v.iter().map(|x| x / d).collect::<Vec<_>>() && rm.0 == v.iter().map(|x| x % d).collect::<Vec<_>>();
                            ctx.check(ok, &p("quot_rem", "(x/d,x%d)"), || json!({"input": input, "observed_q": q.0, "observed_r": rm.0}));
                        }
                        let y: Vec<usize> = r.vec_below(n, 5);
                        let c = r.below(5);
                        let input = json!({"x": v, "c": c, "y": y});
                        if let Some(x) = call!(ctx, "mul_constant_add", input, a(&v).mul_constant_add(c, &a(&y))) {
                            ctx.check(x.0 == v.iter().zip(y.iter()).map(|(a, b)| a * c + b).collect::<Vec<_>>(), &p("mul_constant_add", "x*c+y"), || json!({"input": input, "observed": x.0}));
                        }
                        if let Some(x) = call!(ctx, "add", input, a(&v) + a(&y)) {
                            ctx.check(x.0 == v.iter().zip(y.iter()).map(|(a, b)| a + b).collect::<Vec<_>>(), &p("add", "elementwise"), || json!({"input": input, "observed": x.0}));
                        }
                        let sum: Vec<usize> = v.iter().zip(y.iter()).map(|(a, b)| a + b).collect();
                        if let Some(x) = call!(ctx, "sub", input, a(&sum) - a(&y)) {
                            ctx.check(x.0 == v, &p("sub", "elementwise"), || json!({"input": input, "observed": x.0}));
                        }
                        if let Some(x) = call!(ctx, "scalar_add", input, c + &a(&v)) {
                            ctx.check(x.0 == v.iter().map(|a| a + c).collect::<Vec<_>>(), &p("scalar_add", "offset"), || json!({"input": input, "observed": x.0}));
                        }
                    }
                    7 => {
                        // segmented_sum: self = sizes
                        let sizes: Vec<usize> = r.vec_below(n, if big { 24 } else { 4 });
                        let total: usize = sizes.iter().sum();
                        let x: Vec<usize> = r.vec_below(total, 6);
                        let input = json!({"sizes": sizes, "x": x});
                        if let Some(o) = call!(ctx, "segmented_sum", input, a(&sizes).segmented_sum(&a(&x))) {
                            let mut at = 0;
                            let want: Vec<usize> = sizes.iter().map(|&k| { let t: usize = x[at..at + k].iter().sum(); at += k; t }).collect();
                            ctx.check(o.0 == want, &p("segmented_sum", "per-segment-totals"), || json!({"input": input, "observed": o.0, "expected": want}));
                        }
                    }
                    8 | 9 => {
                        // connected components: dense numbering, same label iff connected
                        // mostly tiny; in the larger bands irregular graphs of up to maxlen nodes (mixed-rank unions)
                        let gmax = if maxlen > 6 { maxlen } else { 8 };
                        let nodes = if large { r.range(200, gmax) } else { r.small(gmax) };
                        let ne = if nodes == 0 { 0 } else if gmax > 8 { r.below(2 * nodes + 1) } else { r.small(8) };
                        if nodes > 16 {
                            ctx.class("components_of_a_graph_with_more_than_16_nodes");
                        }
                        let src: Vec<usize> = r.vec_below(ne, nodes.max(1));
                        let tgt: Vec<usize> = r.vec_below(ne, nodes.max(1));
                        let input = json!({"sources": src, "targets": tgt, "n": nodes});
                        if src.iter().zip(tgt.iter()).any(|(a, b)| a == b) {
                            ctx.class("self_loop_edge");
                        }
                        let pairs: Vec<(usize, usize)> = src.iter().cloned().zip(tgt.iter().cloned()).collect();
                        let (cls, k) = components(nodes, &pairs);
                        if k == 1 && nodes > 1 {
                            ctx.class("single_component");
                        }
                        if k == nodes && nodes > 1 {
                            ctx.class("all_isolated");
                        }
                        if let Some((lab, kk)) = call!(ctx, "connected_components", input, <Ix as NaturalArray<K>>::connected_components(&a(&src), &a(&tgt), nodes)) {
                            let dense = lab.0.iter().all(|&l| l < kk) && (0..kk).all(|c| lab.0.contains(&c));
                            let ok = kk == k && lab.0.len() == nodes && dense && same_partition(&lab.0, &cls);
                            ctx.check(ok, &p("connected_components", "partition-equals-connectivity"), || json!({"input": input, "observed": lab.0, "observed_k": kk, "expected_partition": cls, "expected_k": k}));
                        }
                    }
                    10 => {
                        // sort_by
                        let keys: Vec<usize> = r.vec_below(n, 3);
                        let input = json!({"values": v, "keys": keys});
                        if let Some(x) = call!(ctx, "sort_by", input, a(&v).sort_by(&a(&keys))) {
                            // the result lists, key block by key block, the values carrying that key (any order inside a block)
                            let mut ok = x.0.len() == n;
                            if ok {
                                let mut at = 0;
                                let mut ks = keys.clone();
                                ks.sort();
                                ks.dedup();
                                for k in ks {
                                    let mut want: Vec<usize> = (0..n).filter(|&i| keys[i] == k).map(|i| v[i]).collect();
                                    let mut got: Vec<usize> = x.0[at..at + want.len()].to_vec();
                                    at += want.len();
                                    want.sort();
                                    got.sort();
                                    ok = ok && want == got;
                                }
                            }
                            ctx.check(ok, &p("sort_by", "values-in-key-order"), || json!({"input": input, "observed": x.0}));
                        }
                        if let Some(x) = call!(ctx, "sort_by<T>", input, s(&v).sort_by(&s(&keys))) {
                            let mut ok = x.0.len() == n;
                            if ok {
                                let mut at = 0;
                                let mut ks = keys.clone();
                                ks.sort();
                                ks.dedup();
                                for k in ks {
                                    let mut want: Vec<String> = (0..n).filter(|&i| keys[i] == k).map(|i| format!("e{}", v[i])).collect();
                                    let mut got: Vec<String> = x.0[at..at + want.len()].to_vec();
                                    at += want.len();
                                    want.sort();
                                    got.sort();
                                    ok = ok && want == got;
                                }
                            }
                            ctx.check(ok, &p("sort_by<T>", "values-in-key-order"), || json!({"input": input, "observed": x.0}));
                        }
                    }
                    _ => unary(ctx, &v, tag),
                }
                key
            }
        }
    };
}
