//! A second, adversarial but contract-conforming array backend (property C20).
//!
//! `AdvKind` stores arrays in `Vec`s like the Vec backend but resolves every choice the array
//! contract leaves open differently and seed-dependently: tie order of argsort, numbering of
//! connected components, key order of sparse_bincount, order of zero(), filler value and write
//! order of scatter / scatter_assign. Counters record how often an answer actually differed from
//! what the Vec backend would have returned.

use crate::model::components;
use crate::rng::mix;
use open_hypergraphs::array::{Array, ArrayKind, NaturalArray, OrdArray};
use std::cell::RefCell;
use std::collections::BTreeMap;
use std::ops::{Add, Bound, Index, RangeBounds, Sub};

#[derive(PartialEq, Eq, Clone, Debug)]
pub struct AdvKind;

#[derive(Clone, Debug)]
pub struct AdvArray<T>(pub Vec<T>);

#[derive(Default, Clone, Debug)]
pub struct AdvState {
    pub seed: u64,
    pub calls: u64,
    pub diverged: BTreeMap<&'static str, u64>,
    pub choice_points: BTreeMap<&'static str, u64>,
}

thread_local! {
    pub static ADV: RefCell<AdvState> = RefCell::new(AdvState::default());
}

pub fn set_seed(seed: u64) {
    ADV.with(|a| {
        let mut a = a.borrow_mut();
        a.seed = seed;
        a.calls = 0;
    });
}

pub fn take_counters() -> (BTreeMap<&'static str, u64>, BTreeMap<&'static str, u64>) {
    ADV.with(|a| {
        let mut a = a.borrow_mut();
        (std::mem::take(&mut a.diverged), std::mem::take(&mut a.choice_points))
    })
}

/// The resolution of an open choice is a deterministic function of (case seed, primitive, argument
/// contents): asking the same question twice gives the same answer, as on any real backend, while
/// different cases (seeds) resolve the same question differently.
fn fresh(tag: u64, content: &[&[usize]], extra: usize) -> u64 {
    let mut h = mix(tag ^ 0xA5A5_0000_0000_0000 ^ (extra as u64).wrapping_mul(0x9E37_79B9_7F4A_7C15));
    for part in content {
        h = mix(h ^ part.len() as u64);
        for &x in part.iter() {
            h = mix(h ^ (x as u64).wrapping_add(0x1234_5678_9ABC_DEF1));
        }
    }
    ADV.with(|a| {
        let mut a = a.borrow_mut();
        a.calls += 1;
        mix(a.seed ^ h)
    })
}

fn note(kind: &'static str, diverged: bool) {
    ADV.with(|a| {
        let mut a = a.borrow_mut();
        *a.choice_points.entry(kind).or_insert(0) += 1;
        if diverged {
            *a.diverged.entry(kind).or_insert(0) += 1;
        }
    });
}

/// seeded permutation of 0..n
fn perm(n: usize, mut h: u64) -> Vec<usize> {
    let mut p: Vec<usize> = (0..n).collect();
    for i in (1..n).rev() {
        h = mix(h);
        p.swap(i, (h % (i as u64 + 1)) as usize);
    }
    p
}

impl ArrayKind for AdvKind {
    type Type<T> = AdvArray<T>;
    type I = usize;
    type Index = AdvArray<usize>;
    type Slice<'a, T: 'a> = &'a [T];
}

impl<T: PartialEq> PartialEq for AdvArray<T> {
    fn eq(&self, other: &Self) -> bool {
        self.0 == other.0
    }
}

impl AsRef<AdvArray<usize>> for AdvArray<usize> {
    fn as_ref(&self) -> &AdvArray<usize> {
        self
    }
}
impl AsMut<AdvArray<usize>> for AdvArray<usize> {
    fn as_mut(&mut self) -> &mut AdvArray<usize> {
        self
    }
}

fn norm<R: RangeBounds<usize>>(r: R, n: usize) -> std::ops::Range<usize> {
    let start = match r.start_bound() {
        Bound::Included(&i) => i,
        Bound::Excluded(&i) => i + 1,
        Bound::Unbounded => 0,
    };
    let end = match r.end_bound() {
        Bound::Included(&i) => i + 1,
        Bound::Excluded(&i) => i,
        Bound::Unbounded => n,
    };
    start..end
}

impl<T: Clone> Array<AdvKind, T> for AdvArray<T> {
    fn empty() -> Self {
        AdvArray(vec![])
    }
    fn len(&self) -> usize {
        self.0.len()
    }
    fn from_slice(slice: &[T]) -> Self {
        AdvArray(slice.to_vec())
    }
    fn concatenate(&self, other: &Self) -> Self {
        let mut v = self.0.clone();
        v.extend(other.0.iter().cloned());
        AdvArray(v)
    }
    fn fill(x: T, n: usize) -> Self {
        AdvArray(vec![x; n])
    }
    fn get(&self, i: usize) -> T {
        self.0[i].clone()
    }
    fn get_range<R: RangeBounds<usize>>(&self, rb: R) -> &[T] {
        self.0.index(norm(rb, self.0.len()))
    }
    fn set_range<R: RangeBounds<usize>>(&mut self, rb: R, v: &AdvArray<T>) {
        let r = norm(rb, self.0.len());
        self.0[r].clone_from_slice(&v.0)
    }
    fn gather(&self, idx: &[usize]) -> Self {
        AdvArray(idx.iter().map(|&i| self.0[i].clone()).collect())
    }
    fn scatter(&self, idx: &[usize], n: usize) -> Self {
        assert_eq!(idx.len(), self.0.len());
        if self.0.is_empty() {
            return AdvArray(vec![]);
        }
        // filler: some element of self other than the first when possible; write order: seeded
        let h = fresh(1, &[idx], n);
        let filler = self.0[(h % self.0.len() as u64) as usize].clone();
        let mut y = vec![filler; n];
        let order = perm(idx.len(), h);
        for &i in &order {
            y[idx[i]] = self.0[i].clone();
        }
        let natural = order.iter().enumerate().all(|(a, b)| a == *b);
        note("scatter_filler_and_write_order", !natural || (h % self.0.len() as u64) != 0);
        AdvArray(y)
    }
    fn scatter_assign(&mut self, ixs: &AdvArray<usize>, values: Self) {
        let h = fresh(2, &[&ixs.0], self.0.len());
        let n = ixs.0.len().min(values.0.len());
        let order = perm(n, h);
        for &i in &order {
            self.0[ixs.0[i]] = values.0[i].clone();
        }
        note("scatter_assign_write_order", !order.iter().enumerate().all(|(a, b)| a == *b));
    }
    fn scatter_assign_constant(&mut self, ixs: &AdvArray<usize>, arg: T) {
        for &i in ixs.0.iter().rev() {
            self.0[i] = arg.clone();
        }
    }
}

impl Add<&AdvArray<usize>> for usize {
    type Output = AdvArray<usize>;
    fn add(self, rhs: &AdvArray<usize>) -> AdvArray<usize> {
        AdvArray(rhs.0.iter().map(|x| x + self).collect())
    }
}

impl<T: Clone + Add<Output = T>> Add<AdvArray<T>> for AdvArray<T> {
    type Output = AdvArray<T>;
    fn add(self, rhs: AdvArray<T>) -> AdvArray<T> {
        assert_eq!(self.0.len(), rhs.0.len());
        AdvArray(self.0.iter().zip(rhs.0.iter()).map(|(x, y)| x.clone() + y.clone()).collect())
    }
}

impl<T: Clone + Sub<Output = T>> Sub<AdvArray<T>> for AdvArray<T> {
    type Output = AdvArray<T>;
    fn sub(self, rhs: AdvArray<T>) -> AdvArray<T> {
        assert_eq!(self.0.len(), rhs.0.len());
        AdvArray(self.0.iter().zip(rhs.0.iter()).map(|(x, y)| x.clone() - y.clone()).collect())
    }
}

impl<T: Ord + Clone> OrdArray<AdvKind, T> for AdvArray<T> {
    fn argsort(&self) -> AdvArray<usize> {
        // sorting permutation with seeded tie order (the Vec backend is stable)
        let mut stable: Vec<usize> = (0..self.0.len()).collect();
        stable.sort_by_key(|&i| &self.0[i]);
        // content signature of an array of an arbitrary ordered type: its stable sorting permutation
        // and which neighbours in sorted order are equal
        let ties: Vec<usize> = stable.windows(2).map(|w| (self.0[w[0]] == self.0[w[1]]) as usize).collect();
        let h = fresh(3, &[&stable, &ties], 0);
        let tie: Vec<u64> = (0..self.0.len()).map(|i| mix(h ^ i as u64)).collect();
        let mut idx: Vec<usize> = (0..self.0.len()).collect();
        idx.sort_by(|&a, &b| self.0[a].cmp(&self.0[b]).then(tie[a].cmp(&tie[b])));
        note("argsort_tie_order", idx != stable);
        AdvArray(idx)
    }
}

impl NaturalArray<AdvKind> for AdvArray<usize> {
    fn max(&self) -> Option<usize> {
        self.0.iter().max().copied()
    }
    fn cumulative_sum(&self) -> Self {
        let mut v = vec![0usize];
        for x in &self.0 {
            v.push(v.last().unwrap() + x);
        }
        AdvArray(v)
    }
    fn arange(start: &usize, stop: &usize) -> Self {
        assert!(stop >= start);
        AdvArray((*start..*stop).collect())
    }
    fn repeat(&self, x: &[usize]) -> Self {
        assert_eq!(self.0.len(), x.len());
        AdvArray(self.0.iter().zip(x.iter()).flat_map(|(&k, &v)| std::iter::repeat(v).take(k)).collect())
    }
    fn quot_rem(&self, d: usize) -> (Self, Self) {
        assert!(d != 0);
        (AdvArray(self.0.iter().map(|x| x / d).collect()), AdvArray(self.0.iter().map(|x| x % d).collect()))
    }
    fn mul_constant_add(&self, c: usize, x: &Self) -> Self {
        assert_eq!(self.0.len(), x.0.len());
        AdvArray(self.0.iter().zip(x.0.iter()).map(|(s, x)| s * c + x).collect())
    }
    fn connected_components(sources: &Self, targets: &Self, n: usize) -> (Self, usize) {
        assert_eq!(sources.0.len(), targets.0.len());
        let pairs: Vec<(usize, usize)> = sources.0.iter().cloned().zip(targets.0.iter().cloned()).collect();
        let (cls, k) = components(n, &pairs);
        // dense numbering, but not by first occurrence: seeded permutation of the labels
        let p = perm(k, fresh(4, &[&sources.0, &targets.0], n));
        note("component_numbering", !p.iter().enumerate().all(|(a, b)| a == *b));
        (AdvArray(cls.iter().map(|&c| p[c]).collect()), k)
    }
    fn bincount(&self, size: usize) -> AdvArray<usize> {
        let mut c = vec![0; size];
        for &i in &self.0 {
            c[i] += 1;
        }
        AdvArray(c)
    }
    fn sparse_bincount(&self) -> (AdvArray<usize>, AdvArray<usize>) {
        let mut m: BTreeMap<usize, usize> = BTreeMap::new();
        for &i in &self.0 {
            *m.entry(i).or_insert(0) += 1;
        }
        let keys: Vec<usize> = m.keys().cloned().collect();
        // the Vec backend returns sorted keys; here: seeded order
        let p = perm(keys.len(), fresh(5, &[&self.0], 0));
        note("sparse_bincount_key_order", !p.iter().enumerate().all(|(a, b)| a == *b));
        let k2: Vec<usize> = p.iter().map(|&i| keys[i]).collect();
        let c2: Vec<usize> = k2.iter().map(|k| m[k]).collect();
        (AdvArray(k2), AdvArray(c2))
    }
    fn zero(&self) -> AdvArray<usize> {
        let z: Vec<usize> = (0..self.0.len()).filter(|&i| self.0[i] == 0).collect();
        let p = perm(z.len(), fresh(6, &[&self.0], 0));
        note("zero_index_order", !p.iter().enumerate().all(|(a, b)| a == *b));
        AdvArray(p.iter().map(|&i| z[i]).collect())
    }
    fn scatter_sub_assign(&mut self, ixs: &AdvArray<usize>, rhs: &AdvArray<usize>) {
        for i in (0..ixs.0.len()).rev() {
            self.0[ixs.0[i]] -= rhs.0[i];
        }
    }
}
