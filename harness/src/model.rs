//! Plain model of open hypergraphs and reference algorithms written with explicit loops
//! over `Vec`. Nothing in this file calls into the library under test.

use std::collections::BTreeMap;
use std::fmt::Debug;
use std::hash::Hash;

pub trait Lbl: Clone + Debug + PartialEq + Eq + Hash + Ord {}
impl<T: Clone + Debug + PartialEq + Eq + Hash + Ord> Lbl for T {}

#[derive(Clone, Debug, PartialEq, Eq, Hash)]
pub struct PEdge<A> {
    pub l: A,
    pub s: Vec<usize>,
    pub t: Vec<usize>,
}

/// Plain open hypergraph: node labels, hyperedges with ordered incidence lists, interfaces.
#[derive(Clone, Debug, PartialEq, Eq, Hash)]
pub struct POh<O, A> {
    pub w: Vec<O>,
    pub e: Vec<PEdge<A>>,
    pub s: Vec<usize>,
    pub t: Vec<usize>,
}

/// Plain lax open hypergraph: as above plus pending unification pairs.
#[derive(Clone, Debug, PartialEq, Eq, Hash)]
pub struct PLax<O, A> {
    pub w: Vec<O>,
    pub e: Vec<PEdge<A>>,
    pub s: Vec<usize>,
    pub t: Vec<usize>,
    pub q: Vec<(usize, usize)>,
}

impl<O: Lbl, A: Lbl> POh<O, A> {
    pub fn empty() -> Self {
        POh { w: vec![], e: vec![], s: vec![], t: vec![] }
    }
    pub fn src_type(&self) -> Vec<O> {
        self.s.iter().map(|&i| self.w[i].clone()).collect()
    }
    pub fn tgt_type(&self) -> Vec<O> {
        self.t.iter().map(|&i| self.w[i].clone()).collect()
    }
    /// model-side well-formedness (used to sanity check generators)
    pub fn ok(&self) -> bool {
        let n = self.w.len();
        self.s.iter().all(|&i| i < n)
            && self.t.iter().all(|&i| i < n)
            && self.e.iter().all(|e| e.s.iter().all(|&i| i < n) && e.t.iter().all(|&i| i < n))
    }
    pub fn identity(w: Vec<O>) -> Self {
        let n = w.len();
        POh { w, e: vec![], s: (0..n).collect(), t: (0..n).collect() }
    }
    /// symmetry a●b → b●a (any node numbering; compared up to iso)
    pub fn twist(a: &[O], b: &[O]) -> Self {
        let mut w = a.to_vec();
        w.extend_from_slice(b);
        let (na, nb) = (a.len(), b.len());
        let s: Vec<usize> = (0..na + nb).collect();
        let mut t: Vec<usize> = (na..na + nb).collect();
        t.extend(0..na);
        POh { w, e: vec![], s, t }
    }
    pub fn spider(s: Vec<usize>, t: Vec<usize>, w: Vec<O>) -> Self {
        POh { w, e: vec![], s, t }
    }
    pub fn singleton(l: A, a: Vec<O>, b: Vec<O>) -> Self {
        let (na, nb) = (a.len(), b.len());
        let mut w = a;
        w.extend(b);
        POh {
            w,
            e: vec![PEdge { l, s: (0..na).collect(), t: (na..na + nb).collect() }],
            s: (0..na).collect(),
            t: (na..na + nb).collect(),
        }
    }
    pub fn dagger(&self) -> Self {
        POh { w: self.w.clone(), e: self.e.clone(), s: self.t.clone(), t: self.s.clone() }
    }
    /// strict juxtaposition
    pub fn tensor(&self, g: &Self) -> Self {
        let n = self.w.len();
        let mut w = self.w.clone();
        w.extend(g.w.iter().cloned());
        let mut e = self.e.clone();
        for x in &g.e {
            e.push(PEdge {
                l: x.l.clone(),
                s: x.s.iter().map(|&i| i + n).collect(),
                t: x.t.iter().map(|&i| i + n).collect(),
            });
        }
        let mut s = self.s.clone();
        s.extend(g.s.iter().map(|&i| i + n));
        let mut t = self.t.clone();
        t.extend(g.t.iter().map(|&i| i + n));
        POh { w, e, s, t }
    }
    /// the gluing of f and g along f.t[i] ~ g.s[i]; None when the boundary types differ
    pub fn compose(&self, g: &Self) -> Option<Self> {
        if self.tgt_type() != g.src_type() {
            return None;
        }
        let n = self.w.len();
        let mut j = self.tensor(g);
        j.s = self.s.clone();
        j.t = g.t.iter().map(|&i| i + n).collect();
        let pairs: Vec<(usize, usize)> =
            self.t.iter().zip(g.s.iter()).map(|(&a, &b)| (a, b + n)).collect();
        let (r, _q) = quotient_oh(&j, &pairs).ok()?;
        Some(r)
    }
    pub fn to_lax(&self) -> PLax<O, A> {
        PLax { w: self.w.clone(), e: self.e.clone(), s: self.s.clone(), t: self.t.clone(), q: vec![] }
    }
    pub fn map_labels<O2: Lbl, A2: Lbl>(
        &self,
        fo: impl Fn(&O) -> O2,
        fa: impl Fn(&A) -> A2,
    ) -> POh<O2, A2> {
        POh {
            w: self.w.iter().map(fo).collect(),
            e: self
                .e
                .iter()
                .map(|e| PEdge { l: fa(&e.l), s: e.s.clone(), t: e.t.clone() })
                .collect(),
            s: self.s.clone(),
            t: self.t.clone(),
        }
    }
    /// renumber nodes by `np` (old -> new) and reorder edges so that new edge k is old edge `eo[k]`
    pub fn renumber(&self, np: &[usize], eo: &[usize]) -> Self {
        let mut w: Vec<Option<O>> = vec![None; self.w.len()];
        for (i, l) in self.w.iter().enumerate() {
            w[np[i]] = Some(l.clone());
        }
        let e = eo
            .iter()
            .map(|&k| {
                let x = &self.e[k];
                PEdge {
                    l: x.l.clone(),
                    s: x.s.iter().map(|&i| np[i]).collect(),
                    t: x.t.iter().map(|&i| np[i]).collect(),
                }
            })
            .collect();
        POh {
            w: w.into_iter().map(|x| x.unwrap()).collect(),
            e,
            s: self.s.iter().map(|&i| np[i]).collect(),
            t: self.t.iter().map(|&i| np[i]).collect(),
        }
    }
}

impl<O: Lbl, A: Lbl> PLax<O, A> {
    pub fn empty() -> Self {
        PLax { w: vec![], e: vec![], s: vec![], t: vec![], q: vec![] }
    }
    pub fn forget_q(&self) -> POh<O, A> {
        POh { w: self.w.clone(), e: self.e.clone(), s: self.s.clone(), t: self.t.clone() }
    }
    /// model strictification: Err when some class carries two labels
    pub fn strict(&self) -> Result<(POh<O, A>, Vec<usize>), (usize, usize)> {
        quotient_oh(&self.forget_q(), &self.q)
    }
    pub fn tensor(&self, g: &Self) -> Self {
        let n = self.w.len();
        let j = self.forget_q().tensor(&g.forget_q());
        let mut q = self.q.clone();
        q.extend(g.q.iter().map(|&(a, b)| (a + n, b + n)));
        PLax { w: j.w, e: j.e, s: j.s, t: j.t, q }
    }
}

/// Naive connected components of an undirected pair list over `n` points.
/// Returns the class index of every point (classes numbered by first occurrence) and their number.
pub fn components(n: usize, pairs: &[(usize, usize)]) -> (Vec<usize>, usize) {
    // adjacency lists + iterative flood fill; deliberately not a union-find
    let mut adj: Vec<Vec<usize>> = vec![vec![]; n];
    for &(a, b) in pairs {
        adj[a].push(b);
        adj[b].push(a);
    }
    let mut cls = vec![usize::MAX; n];
    let mut k = 0;
    for start in 0..n {
        if cls[start] != usize::MAX {
            continue;
        }
        let mut stack = vec![start];
        cls[start] = k;
        while let Some(v) = stack.pop() {
            for &u in &adj[v] {
                if cls[u] == usize::MAX {
                    cls[u] = k;
                    stack.push(u);
                }
            }
        }
        k += 1;
    }
    (cls, k)
}

/// Is the partition induced by `q` equal to the partition induced by `r` (same length)?
pub fn same_partition(q: &[usize], r: &[usize]) -> bool {
    if q.len() != r.len() {
        return false;
    }
    let mut fwd: BTreeMap<usize, usize> = BTreeMap::new();
    let mut bwd: BTreeMap<usize, usize> = BTreeMap::new();
    for (a, b) in q.iter().zip(r.iter()) {
        if *fwd.entry(*a).or_insert(*b) != *b {
            return false;
        }
        if *bwd.entry(*b).or_insert(*a) != *a {
            return false;
        }
    }
    true
}

/// Quotient a plain open hypergraph by pairs of nodes. Err((i, j)) = two nodes of one class with
/// different labels.
pub fn quotient_oh<O: Lbl, A: Lbl>(
    p: &POh<O, A>,
    pairs: &[(usize, usize)],
) -> Result<(POh<O, A>, Vec<usize>), (usize, usize)> {
    let (q, k) = components(p.w.len(), pairs);
    let mut w: Vec<Option<(usize, O)>> = vec![None; k];
    for (i, l) in p.w.iter().enumerate() {
        match &w[q[i]] {
            None => w[q[i]] = Some((i, l.clone())),
            Some((j, m)) => {
                if m != l {
                    return Err((*j, i));
                }
            }
        }
    }
    let r = POh {
        w: w.into_iter().map(|x| x.unwrap().1).collect(),
        e: p
            .e
            .iter()
            .map(|e| PEdge {
                l: e.l.clone(),
                s: e.s.iter().map(|&i| q[i]).collect(),
                t: e.t.iter().map(|&i| q[i]).collect(),
            })
            .collect(),
        s: p.s.iter().map(|&i| q[i]).collect(),
        t: p.t.iter().map(|&i| q[i]).collect(),
    };
    Ok((r, q))
}

// ---------------------------------------------------------------------------------------------
// Dependency structure of operations, layering, acyclicity, degrees, monogamy

/// deps[y] = list (with multiplicity) of x such that some target node of x is a source node of y
pub fn op_deps<O, A>(p: &POh<O, A>) -> Vec<Vec<usize>> {
    let n = p.w.len();
    // writers[v] = list of ops (with multiplicity) having v as a target
    let mut writers: Vec<Vec<usize>> = vec![vec![]; n];
    for (x, e) in p.e.iter().enumerate() {
        for &v in &e.t {
            writers[v].push(x);
        }
    }
    p.e.iter()
        .map(|e| {
            let mut d = vec![];
            for &v in &e.s {
                d.extend(writers[v].iter().cloned());
            }
            d
        })
        .collect()
}

/// succ[x] = list (with multiplicity) of y depending on x
pub fn op_succs<O, A>(p: &POh<O, A>) -> Vec<Vec<usize>> {
    let deps = op_deps(p);
    let mut succ = vec![vec![]; p.e.len()];
    for (y, d) in deps.iter().enumerate() {
        for &x in d {
            succ[x].push(y);
        }
    }
    succ
}

/// Generic: for a directed multigraph given by successor lists, the set of vertices that are on
/// or downstream of a directed cycle.
pub fn on_or_after_cycle(succ: &[Vec<usize>]) -> Vec<bool> {
    let n = succ.len();
    // reach[a][b] = path of length >= 1 from a to b (Warshall)
    let mut reach = vec![vec![false; n]; n];
    for a in 0..n {
        for &b in &succ[a] {
            reach[a][b] = true;
        }
    }
    for k in 0..n {
        for a in 0..n {
            if reach[a][k] {
                for b in 0..n {
                    if reach[k][b] {
                        reach[a][b] = true;
                    }
                }
            }
        }
    }
    let on_cycle: Vec<bool> = (0..n).map(|a| reach[a][a]).collect();
    (0..n)
        .map(|b| on_cycle[b] || (0..n).any(|a| on_cycle[a] && reach[a][b]))
        .collect()
}

/// Cheaper variant of `on_or_after_cycle` for large inputs: repeatedly strip vertices with no
/// remaining predecessor; what is left is exactly the set on or downstream of a cycle.
pub fn on_or_after_cycle_strip(succ: &[Vec<usize>]) -> Vec<bool> {
    let n = succ.len();
    let mut indeg = vec![0usize; n];
    for a in 0..n {
        for &b in &succ[a] {
            indeg[b] += 1;
        }
    }
    let mut stack: Vec<usize> = (0..n).filter(|&v| indeg[v] == 0).collect();
    let mut left = vec![true; n];
    while let Some(v) = stack.pop() {
        left[v] = false;
        for &b in &succ[v] {
            indeg[b] -= 1;
            if indeg[b] == 0 {
                stack.push(b);
            }
        }
    }
    left
}

/// Longest-path depth of every vertex not in `bad`, along predecessor lists restricted to
/// non-bad vertices (which is all of them for such a vertex). None for bad vertices.
pub fn longest_depth(preds: &[Vec<usize>], bad: &[bool]) -> Vec<Option<usize>> {
    let n = preds.len();
    let mut depth: Vec<Option<usize>> = vec![None; n];
    // simple fixpoint iteration (n rounds at most)
    let mut changed = true;
    let mut rounds = 0;
    while changed && rounds <= n + 1 {
        changed = false;
        rounds += 1;
        for y in 0..n {
            if bad[y] {
                continue;
            }
            let mut d = 0usize;
            let mut ready = true;
            for &x in &preds[y] {
                match depth[x] {
                    Some(dx) => d = d.max(dx + 1),
                    None => {
                        ready = false;
                        break;
                    }
                }
            }
            if ready && depth[y] != Some(d) {
                depth[y] = Some(d);
                changed = true;
            }
        }
    }
    depth
}

/// node-level successor lists: v -> u iff some edge has v among its sources and u among its targets
pub fn node_succs<O, A>(p: &POh<O, A>) -> Vec<Vec<usize>> {
    let mut succ = vec![vec![]; p.w.len()];
    for e in &p.e {
        for &v in &e.s {
            for &u in &e.t {
                succ[v].push(u);
            }
        }
    }
    succ
}

/// true iff no vertex reaches itself (iterative DFS with colours)
pub fn acyclic(succ: &[Vec<usize>]) -> bool {
    let n = succ.len();
    let mut colour = vec![0u8; n]; // 0 white 1 grey 2 black
    for root in 0..n {
        if colour[root] != 0 {
            continue;
        }
        let mut stack: Vec<(usize, usize)> = vec![(root, 0)];
        colour[root] = 1;
        while let Some(&mut (v, ref mut k)) = stack.last_mut() {
            if *k < succ[v].len() {
                let u = succ[v][*k];
                *k += 1;
                if colour[u] == 1 {
                    return false;
                }
                if colour[u] == 0 {
                    colour[u] = 1;
                    stack.push((u, 0));
                }
            } else {
                colour[v] = 2;
                stack.pop();
            }
        }
    }
    true
}

pub fn in_degree<O, A>(p: &POh<O, A>, v: usize) -> usize {
    p.e.iter().map(|e| e.t.iter().filter(|&&u| u == v).count()).sum()
}
pub fn out_degree<O, A>(p: &POh<O, A>, v: usize) -> usize {
    p.e.iter().map(|e| e.s.iter().filter(|&&u| u == v).count()).sum()
}

/// Monogamy by counting: both legs injective; every node has in-degree 0 if it is an input and
/// 1 otherwise, out-degree 0 if it is an output and 1 otherwise.
pub fn monogamous<O, A>(p: &POh<O, A>) -> bool {
    let n = p.w.len();
    for v in 0..n {
        let ins = p.s.iter().filter(|&&u| u == v).count();
        let outs = p.t.iter().filter(|&&u| u == v).count();
        if ins > 1 || outs > 1 {
            return false;
        }
        if in_degree(p, v) + ins != 1 {
            return false;
        }
        if out_degree(p, v) + outs != 1 {
            return false;
        }
    }
    true
}

// ---------------------------------------------------------------------------------------------
// Reference interpreter

#[derive(Debug, Clone, PartialEq)]
pub struct RefEval<T> {
    /// None = dependency relation cyclic
    pub out: Option<Vec<T>>,
    /// per edge: the input values it was applied to (when acyclic)
    pub inputs: Vec<Vec<T>>,
    /// some node is written by more than one (target position | input position)
    pub multi_write: bool,
    /// some node is read (by an edge or the output interface) but never written
    pub unwritten_read: bool,
    /// a topological order used
    pub order: Vec<usize>,
}

/// Interpret every hyperedge once in a dependency-respecting order. `apply(label, inputs)` must
/// return one value per target position.
pub fn ref_eval<O, A, T: Clone + Default>(
    p: &POh<O, A>,
    inputs: &[T],
    apply: &dyn Fn(&A, &[T]) -> Vec<T>,
) -> RefEval<T> {
    let n = p.w.len();
    let mut writes = vec![0usize; n];
    for &v in &p.s {
        writes[v] += 1;
    }
    for e in &p.e {
        for &v in &e.t {
            writes[v] += 1;
        }
    }
    let multi_write = writes.iter().any(|&c| c > 1);
    let mut unwritten_read = p.t.iter().any(|&v| writes[v] == 0);
    for e in &p.e {
        if e.s.iter().any(|&v| writes[v] == 0) {
            unwritten_read = true;
        }
    }
    let deps = op_deps(p);
    let succ = op_succs(p);
    if !acyclic(&succ) {
        return RefEval { out: None, inputs: vec![], multi_write, unwritten_read, order: vec![] };
    }
    // topological order: repeatedly take the smallest-index ready op
    let m = p.e.len();
    let mut done = vec![false; m];
    let mut order = vec![];
    for _ in 0..m {
        let mut pick = None;
        for y in 0..m {
            if !done[y] && deps[y].iter().all(|&x| done[x]) {
                pick = Some(y);
                break;
            }
        }
        let y = pick.expect("acyclic");
        done[y] = true;
        order.push(y);
    }
    let mut mem: Vec<T> = vec![T::default(); n];
    assert_eq!(inputs.len(), p.s.len());
    for (k, &v) in p.s.iter().enumerate() {
        mem[v] = inputs[k].clone();
    }
    let mut used: Vec<Vec<T>> = vec![vec![]; m];
    for &y in &order {
        let e = &p.e[y];
        let ins: Vec<T> = e.s.iter().map(|&v| mem[v].clone()).collect();
        let outs = apply(&e.l, &ins);
        assert_eq!(outs.len(), e.t.len(), "test signature arity");
        used[y] = ins;
        for (k, &v) in e.t.iter().enumerate() {
            mem[v] = outs[k].clone();
        }
    }
    let out = p.t.iter().map(|&v| mem[v].clone()).collect();
    RefEval { out: Some(out), inputs: used, multi_write, unwritten_read, order }
}

// ---------------------------------------------------------------------------------------------
// Functor application by generator-wise substitution

/// Result of model substitution; `blocks[i]` = node ids (in the result) of the block F(w_i).
pub struct Subst<O, A> {
    pub result: POh<O, A>,
    pub blocks: Vec<Vec<usize>>,
}

#[derive(Debug)]
pub enum SubstErr {
    /// the functor's image of an operation does not have type F(A) -> F(B) (harness bug)
    IllTyped(usize),
    LabelConflict,
}

pub fn substitute<O1: Lbl, A1: Lbl, O2: Lbl, A2: Lbl>(
    f: &POh<O1, A1>,
    obj: &dyn Fn(&O1) -> Vec<O2>,
    op: &dyn Fn(&A1, &[O1], &[O1]) -> POh<O2, A2>,
) -> Result<Subst<O2, A2>, SubstErr> {
    let mut g: POh<O2, A2> = POh::empty();
    let mut blocks: Vec<Vec<usize>> = vec![];
    for l in &f.w {
        let img = obj(l);
        let base = g.w.len();
        blocks.push((base..base + img.len()).collect());
        g.w.extend(img);
    }
    let expand = |xs: &[usize]| -> Vec<usize> {
        let mut r = vec![];
        for &v in xs {
            r.extend(blocks[v].iter().cloned());
        }
        r
    };
    let mut pairs = vec![];
    for (k, e) in f.e.iter().enumerate() {
        let st: Vec<O1> = e.s.iter().map(|&v| f.w[v].clone()).collect();
        let tt: Vec<O1> = e.t.iter().map(|&v| f.w[v].clone()).collect();
        let img = op(&e.l, &st, &tt);
        let es = expand(&e.s);
        let et = expand(&e.t);
        if img.s.len() != es.len() || img.t.len() != et.len() {
            return Err(SubstErr::IllTyped(k));
        }
        let base = g.w.len();
        g.w.extend(img.w.iter().cloned());
        for x in &img.e {
            g.e.push(PEdge {
                l: x.l.clone(),
                s: x.s.iter().map(|&i| i + base).collect(),
                t: x.t.iter().map(|&i| i + base).collect(),
            });
        }
        for (j, &v) in es.iter().enumerate() {
            pairs.push((v, base + img.s[j]));
        }
        for (j, &v) in et.iter().enumerate() {
            pairs.push((v, base + img.t[j]));
        }
    }
    g.s = expand(&f.s);
    g.t = expand(&f.t);
    match quotient_oh(&g, &pairs) {
        Ok((r, q)) => {
            let blocks = blocks.iter().map(|b| b.iter().map(|&i| q[i]).collect()).collect();
            Ok(Subst { result: r, blocks })
        }
        Err(_) => Err(SubstErr::LabelConflict),
    }
}

/// One pass "strip" layering of a directed multigraph given by successor lists:
/// returns (left, depth) where left[v] = v is on or downstream of a cycle, and depth[v] is the
/// length of the longest path ending in v for every other vertex.
pub fn strip_depths(succ: &[Vec<usize>]) -> (Vec<bool>, Vec<Option<usize>>) {
    let n = succ.len();
    let mut indeg = vec![0usize; n];
    for a in 0..n {
        for &b in &succ[a] {
            indeg[b] += 1;
        }
    }
    let mut depth: Vec<Option<usize>> = vec![None; n];
    let mut queue: std::collections::VecDeque<usize> = (0..n).filter(|&v| indeg[v] == 0).collect();
    for &v in queue.iter() {
        depth[v] = Some(0);
    }
    let mut best = vec![0usize; n];
    let mut left = vec![true; n];
    while let Some(v) = queue.pop_front() {
        left[v] = false;
        let dv = depth[v].unwrap();
        for &b in &succ[v] {
            if best[b] < dv + 1 {
                best[b] = dv + 1;
            }
            indeg[b] -= 1;
            if indeg[b] == 0 {
                depth[b] = Some(best[b]);
                queue.push_back(b);
            }
        }
    }
    (left, depth)
}

/// predecessor lists from successor lists
pub fn preds_of(succ: &[Vec<usize>]) -> Vec<Vec<usize>> {
    let mut p = vec![vec![]; succ.len()];
    for (a, l) in succ.iter().enumerate() {
        for &b in l {
            p[b].push(a);
        }
    }
    p
}

/// A maximally lax presentation of a diagram: every hyperedge gets fresh copies of its incident
/// nodes and the identifications with the original nodes are left as pending unification pairs.
/// Quotienting the result gives back a diagram isomorphic to `p`.
pub fn explode<O: Lbl, A: Lbl>(p: &POh<O, A>) -> PLax<O, A> {
    let mut w = p.w.clone();
    let mut q = vec![];
    let mut e = vec![];
    for x in &p.e {
        let copy = |v: usize, w: &mut Vec<O>, q: &mut Vec<(usize, usize)>| -> usize {
            w.push(p.w[v].clone());
            let n = w.len() - 1;
            // alternate the orientation of the pair
            if n % 2 == 0 { q.push((v, n)) } else { q.push((n, v)) }
            n
        };
        let s: Vec<usize> = x.s.iter().map(|&v| copy(v, &mut w, &mut q)).collect();
        let t: Vec<usize> = x.t.iter().map(|&v| copy(v, &mut w, &mut q)).collect();
        e.push(PEdge { l: x.l.clone(), s, t });
    }
    PLax { w, e, s: p.s.clone(), t: p.t.clone(), q }
}

/// the same lax diagram with node `i` renamed to `np[i]` (hyperedges, interfaces and pending pairs follow)
pub fn renumber_lax<O: Lbl, A: Lbl>(p: &PLax<O, A>, np: &[usize]) -> PLax<O, A> {
    let mut w: Vec<Option<O>> = vec![None; p.w.len()];
    for (i, l) in p.w.iter().enumerate() {
        w[np[i]] = Some(l.clone());
    }
    let m = |v: &Vec<usize>| -> Vec<usize> { v.iter().map(|&x| np[x]).collect() };
    PLax {
        w: w.into_iter().map(|x| x.expect("permutation")).collect(),
        e: p.e.iter().map(|e| PEdge { l: e.l.clone(), s: m(&e.s), t: m(&e.t) }).collect(),
        s: m(&p.s),
        t: m(&p.t),
        q: p.q.iter().map(|&(a, b)| (np[a], np[b])).collect(),
    }
}

/// `explode` followed by a renumbering of the nodes that depends only on the diagram (so that boundary nodes
/// are not always the lowest-numbered ones and may come after nodes that a quotient merges away)
pub fn explode_shuffled<O: Lbl, A: Lbl>(p: &POh<O, A>) -> PLax<O, A> {
    let e = explode(p);
    let np = crate::rng::Rng(crate::ctx::hash_of(p) | 1).perm(e.w.len());
    renumber_lax(&e, &np)
}

/// A label whose `==` (and order, hash) look at `sort` only: two labels of one sort are equal although they
/// are different values. Lets an oracle ask *which* of several equal labels a result node carries.
#[derive(Clone, Debug)]
pub struct Tag {
    pub sort: u32,
    pub id: u32,
}
impl PartialEq for Tag {
    fn eq(&self, o: &Tag) -> bool {
        self.sort == o.sort
    }
}
impl Eq for Tag {}
impl std::hash::Hash for Tag {
    fn hash<H: std::hash::Hasher>(&self, h: &mut H) {
        self.sort.hash(h)
    }
}
impl PartialOrd for Tag {
    fn partial_cmp(&self, o: &Tag) -> Option<std::cmp::Ordering> {
        Some(self.cmp(o))
    }
}
impl Ord for Tag {
    fn cmp(&self, o: &Tag) -> std::cmp::Ordering {
        self.sort.cmp(&o.sort)
    }
}
