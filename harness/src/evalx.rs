//! Shared evaluation machinery: a test signature with arbitrary arities, a logging wrapper around
//! `strict::eval::eval`, and the event-log oracle (exactly-once, dependency order, input values).

use crate::conv::*;
use crate::ctx::*;
use crate::model::*;
use crate::rng::mix;
use open_hypergraphs::strict::eval::eval;
use std::cell::RefCell;

/// Operation of the evaluation test signature. `id` is unique per hyperedge of a diagram so that
/// every callback log entry identifies its hyperedge.
#[derive(Clone, Debug, PartialEq, Eq, Hash, PartialOrd, Ord)]
pub struct Gate {
    pub kind: GateKind,
    pub id: u32,
    pub nout: u8,
}

#[derive(Clone, Copy, Debug, PartialEq, Eq, Hash, PartialOrd, Ord)]
pub enum GateKind {
    Add,     // 2 -> 1
    Mul,     // 2 -> 1
    Neg,     // 1 -> 1
    Copy,    // 1 -> n
    Discard, // 1 -> 0
    Const,   // 0 -> 1, value derived from id
    Mux,     // 3 -> 1
    DivMod,  // 2 -> 2
    Xor,     // 2 -> 1
    And,     // 2 -> 1
    /// any arity: output j = order-sensitive hash of (id, j, inputs)
    Generic,
}

pub fn gate_apply(g: &Gate, x: &[u64]) -> Vec<u64> {
    use GateKind::*;
    match g.kind {
        Add if x.len() == 2 && g.nout == 1 => vec![x[0].wrapping_add(x[1])],
        Mul if x.len() == 2 && g.nout == 1 => vec![x[0].wrapping_mul(x[1])],
        Neg if x.len() == 1 && g.nout == 1 => vec![x[0].wrapping_neg()],
        Copy if x.len() == 1 => vec![x[0]; g.nout as usize],
        Discard if x.len() == 1 && g.nout == 0 => vec![],
        Const if x.is_empty() && g.nout == 1 => vec![mix(g.id as u64) % 1000],
        Mux if x.len() == 3 && g.nout == 1 => vec![if x[0] & 1 == 1 { x[1] } else { x[2] }],
        DivMod if x.len() == 2 && g.nout == 2 => vec![x[0] / (x[1] | 1), x[0] % (x[1] | 1)],
        Xor if x.len() == 2 && g.nout == 1 => vec![x[0] ^ x[1]],
        And if x.len() == 2 && g.nout == 1 => vec![x[0] & x[1]],
        _ => (0..g.nout as u64)
            .map(|j| {
                let mut h = mix(g.id as u64 ^ (j << 32));
                for (k, v) in x.iter().enumerate() {
                    h = mix(h ^ v.wrapping_mul(2 * k as u64 + 3));
                }
                h
            })
            .collect(),
    }
}

/// one callback invocation: the (label, input values) of every operation in the batch
pub type Batch<A> = Vec<(A, Vec<u64>)>;

pub struct EvalRun<A> {
    pub result: Result<Option<Vec<u64>>, PanicInfo>,
    pub batches: Vec<Batch<A>>,
    /// the callback saw an ill-formed batch (label count != segment count)
    pub malformed: Option<String>,
}

/// Run the library evaluator with a logging interpreter.
pub fn run_eval<O: Clone, A: Clone>(
    f: &SOh<O, A>,
    inputs: Vec<u64>,
    apply_one: &dyn Fn(&A, &[u64]) -> Vec<u64>,
) -> EvalRun<A> {
    let log: RefCell<Vec<Batch<A>>> = RefCell::new(vec![]);
    let bad: RefCell<Option<String>> = RefCell::new(None);
    let result = guard(|| {
        eval::<open_hypergraphs::array::vec::VecKind, O, A, u64>(f, open_hypergraphs::array::vec::VecArray(inputs), |ops, args| {
            let labels: &Vec<A> = &ops.0 .0;
            // (the codomain of the size map is C08's business, not demanded here)
            let lenient = decode(&args.sources.table.0, args.values.0 .0.len() + 1, &args.values.0 .0);
            let segs = match lenient {
                Ok(s) => s,
                Err(e) => {
                    *bad.borrow_mut() = Some(format!("argument segments ill-formed: {}", e));
                    vec![vec![]; labels.len()]
                }
            };
            if segs.len() != labels.len() {
                *bad.borrow_mut() = Some(format!("{} labels but {} argument segments", labels.len(), segs.len()));
            }
            let mut batch = vec![];
            let mut outs: Vec<Vec<u64>> = vec![];
            for (k, l) in labels.iter().enumerate() {
                let x = segs.get(k).cloned().unwrap_or_default();
                outs.push(apply_one(l, &x));
                batch.push((l.clone(), x));
            }
            log.borrow_mut().push(batch);
            segs_from_lists(&outs)
        })
        .map(|v| v.0)
    });
    EvalRun { result, batches: log.into_inner(), malformed: bad.into_inner() }
}

/// Event-log oracle. `ident` maps a label to the index of its hyperedge in `p` (labels carry
/// unique ids). Checks: every hyperedge exactly once; inputs equal the reference inputs (unless
/// `check_values` is false); no operation in an earlier or the same batch as one it depends on.
pub fn judge_log<O, A: Clone + std::fmt::Debug>(
    p: &POh<O, A>,
    batches: &[Batch<A>],
    ident: &dyn Fn(&A) -> Option<usize>,
    reference_inputs: Option<&[Vec<u64>]>,
) -> Result<u64, (&'static str, String)> {
    let m = p.e.len();
    let mut batch_of: Vec<Option<usize>> = vec![None; m];
    let mut events = 0u64;
    for (bi, b) in batches.iter().enumerate() {
        for (l, x) in b {
            events += 1;
            let y = match ident(l) {
                Some(y) if y < m => y,
                _ => return Err(("unknown-operation", format!("callback saw label {:?} which is not a hyperedge of the diagram", l))),
            };
            if batch_of[y].is_some() {
                return Err(("exactly-once", format!("hyperedge {} ({:?}) interpreted twice", y, l)));
            }
            batch_of[y] = Some(bi);
            if let Some(refs) = reference_inputs {
                if refs[y] != *x {
                    return Err(("input-values", format!("hyperedge {} ({:?}) applied to {:?}, reference inputs {:?}", y, l, x, refs[y])));
                }
            }
        }
    }
    // every hyperedge at most once (above); at least once is demanded only of the hyperedges the output interface
    // depends on -- an evaluator is free not to interpret operations whose results nobody can observe
    let deps = op_deps(p);
    let mut needed = vec![false; m];
    let mut stack: Vec<usize> = (0..m).filter(|&y| p.e[y].t.iter().any(|v| p.t.contains(v))).collect();
    while let Some(y) = stack.pop() {
        if !needed[y] {
            needed[y] = true;
            stack.extend(deps[y].iter().cloned());
        }
    }
    for y in 0..m {
        if batch_of[y].is_none() && needed[y] {
            return Err(("exactly-once", format!("hyperedge {} never interpreted although the output depends on it", y)));
        }
    }
    for y in 0..m {
        if batch_of[y].is_none() {
            continue;
        }
        for &x in &deps[y] {
            if batch_of[x].is_none() {
                return Err(("dependency-order", format!("hyperedge {} was interpreted but {} which it depends on never was", y, x)));
            }
            if batch_of[x].unwrap() >= batch_of[y].unwrap() {
                return Err((
                    "dependency-order",
                    format!("hyperedge {} depends on {} but ran in batch {} vs {}", y, x, batch_of[y].unwrap(), batch_of[x].unwrap()),
                ));
            }
        }
    }
    Ok(events)
}
