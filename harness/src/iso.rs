//! Isomorphism decision procedure for plain open hypergraphs.
//!
//! An isomorphism is a bijection on nodes and a bijection on hyperedges preserving node labels,
//! edge labels, the ordered source and target lists of every hyperedge, and both interfaces
//! position by position. Complete backtracking search with forced-assignment propagation; a step
//! budget turns pathological symmetric cases into `Budget` (counted as inconclusive-case by the
//! caller, never as a violation).

use crate::model::{Lbl, POh};
use std::collections::BTreeMap;

#[derive(Debug, Clone, PartialEq)]
pub enum Iso {
    Yes,
    No(String),
    Budget,
}

pub const DEFAULT_BUDGET: u64 = 2_000_000;

struct St<'a, O, A> {
    a: &'a POh<O, A>,
    b: &'a POh<O, A>,
    nm: Vec<usize>,  // a-node -> b-node or MAX
    nmi: Vec<usize>, // b-node -> a-node or MAX
    em: Vec<usize>,  // a-edge -> b-edge or MAX
    emi: Vec<usize>,
    trail_n: Vec<usize>,
    trail_e: Vec<usize>,
    steps: u64,
    budget: u64,
}

const NONE: usize = usize::MAX;

impl<'a, O: Lbl, A: Lbl> St<'a, O, A> {
    fn assign_node(&mut self, i: usize, j: usize) -> bool {
        self.steps += 1;
        if self.nm[i] == j {
            return true; // then nmi[j] == i by construction
        }
        if self.nm[i] != NONE || self.nmi[j] != NONE {
            return false;
        }
        if self.a.w[i] != self.b.w[j] {
            return false;
        }
        self.nm[i] = j;
        self.nmi[j] = i;
        self.trail_n.push(i);
        true
    }

    fn edge_shape_ok(&self, x: usize, y: usize) -> bool {
        let (ea, eb) = (&self.a.e[x], &self.b.e[y]);
        ea.l == eb.l && ea.s.len() == eb.s.len() && ea.t.len() == eb.t.len()
    }

    /// non-mutating consistency test of mapping edge x to edge y under the current node map
    fn edge_consistent(&mut self, x: usize, y: usize) -> bool {
        if self.emi[y] != NONE || !self.edge_shape_ok(x, y) {
            return false;
        }
        let mark_n = self.trail_n.len();
        let ok = self.assign_edge_nodes(x, y);
        self.undo_nodes(mark_n);
        ok
    }

    fn assign_edge_nodes(&mut self, x: usize, y: usize) -> bool {
        let ns = self.a.e[x].s.len();
        for k in 0..ns {
            let (i, j) = (self.a.e[x].s[k], self.b.e[y].s[k]);
            if !self.assign_node(i, j) {
                return false;
            }
        }
        let nt = self.a.e[x].t.len();
        for k in 0..nt {
            let (i, j) = (self.a.e[x].t[k], self.b.e[y].t[k]);
            if !self.assign_node(i, j) {
                return false;
            }
        }
        true
    }

    fn assign_edge(&mut self, x: usize, y: usize) -> bool {
        if self.em[x] != NONE || self.emi[y] != NONE || !self.edge_shape_ok(x, y) {
            return false;
        }
        if !self.assign_edge_nodes(x, y) {
            return false;
        }
        self.em[x] = y;
        self.emi[y] = x;
        self.trail_e.push(x);
        true
    }

    fn undo_nodes(&mut self, mark: usize) {
        while self.trail_n.len() > mark {
            let i = self.trail_n.pop().unwrap();
            let j = self.nm[i];
            self.nm[i] = NONE;
            self.nmi[j] = NONE;
        }
    }

    fn undo(&mut self, mark_n: usize, mark_e: usize) {
        while self.trail_e.len() > mark_e {
            let x = self.trail_e.pop().unwrap();
            let y = self.em[x];
            self.em[x] = NONE;
            self.emi[y] = NONE;
        }
        self.undo_nodes(mark_n);
    }

    /// Some(true) found, Some(false) no extension, None budget exhausted
    fn search(&mut self) -> Option<bool> {
        loop {
            if self.steps > self.budget {
                return None;
            }
            // find the unmapped edge with the fewest candidates
            let mut best: Option<(usize, Vec<usize>)> = None;
            let ne = self.a.e.len();
            let mut all_mapped = true;
            for x in 0..ne {
                if self.em[x] != NONE {
                    continue;
                }
                all_mapped = false;
                let mut cands = vec![];
                for y in 0..self.b.e.len() {
                    if self.edge_consistent(x, y) {
                        cands.push(y);
                    }
                }
                if cands.is_empty() {
                    return Some(false);
                }
                let better = match &best {
                    None => true,
                    Some((_, c)) => cands.len() < c.len(),
                };
                if better {
                    let single = cands.len() == 1;
                    best = Some((x, cands));
                    if single {
                        break;
                    }
                }
                if self.steps > self.budget {
                    return None;
                }
            }
            if all_mapped {
                return Some(self.finish());
            }
            let (x, cands) = best.unwrap();
            if cands.len() == 1 {
                // forced
                if !self.assign_edge(x, cands[0]) {
                    return Some(false);
                }
                continue;
            }
            for y in cands {
                let (mn, me) = (self.trail_n.len(), self.trail_e.len());
                if self.assign_edge(x, y) {
                    match self.search() {
                        Some(true) => return Some(true),
                        None => return None,
                        Some(false) => {}
                    }
                }
                self.undo(mn, me);
            }
            return Some(false);
        }
    }

    /// all edges mapped: the remaining nodes are isolated and off the interfaces; match by label
    fn finish(&mut self) -> bool {
        let mut ca: BTreeMap<&O, isize> = BTreeMap::new();
        for (i, l) in self.a.w.iter().enumerate() {
            if self.nm[i] == NONE {
                *ca.entry(l).or_insert(0) += 1;
            }
        }
        for (j, l) in self.b.w.iter().enumerate() {
            if self.nmi[j] == NONE {
                *ca.entry(l).or_insert(0) -= 1;
            }
        }
        ca.values().all(|&c| c == 0)
    }
}

pub fn iso<O: Lbl, A: Lbl>(a: &POh<O, A>, b: &POh<O, A>) -> Iso {
    iso_budget(a, b, DEFAULT_BUDGET).0
}

/// Returns the verdict and the number of search steps spent.
pub fn iso_budget<O: Lbl, A: Lbl>(a: &POh<O, A>, b: &POh<O, A>, budget: u64) -> (Iso, u64) {
    if a.w.len() != b.w.len() {
        return (Iso::No(format!("node count {} vs {}", a.w.len(), b.w.len())), 0);
    }
    if a.e.len() != b.e.len() {
        return (Iso::No(format!("edge count {} vs {}", a.e.len(), b.e.len())), 0);
    }
    if a.s.len() != b.s.len() || a.t.len() != b.t.len() {
        return (Iso::No("interface arity".into()), 0);
    }
    // label multisets
    {
        let mut m: BTreeMap<&O, isize> = BTreeMap::new();
        for l in &a.w {
            *m.entry(l).or_insert(0) += 1;
        }
        for l in &b.w {
            *m.entry(l).or_insert(0) -= 1;
        }
        if m.values().any(|&c| c != 0) {
            return (Iso::No("node label multiset".into()), 0);
        }
        let mut m: BTreeMap<(&A, usize, usize), isize> = BTreeMap::new();
        for e in &a.e {
            *m.entry((&e.l, e.s.len(), e.t.len())).or_insert(0) += 1;
        }
        for e in &b.e {
            *m.entry((&e.l, e.s.len(), e.t.len())).or_insert(0) -= 1;
        }
        if m.values().any(|&c| c != 0) {
            return (Iso::No("edge label/arity multiset".into()), 0);
        }
    }
    let mut st = St {
        a,
        b,
        nm: vec![NONE; a.w.len()],
        nmi: vec![NONE; b.w.len()],
        em: vec![NONE; a.e.len()],
        emi: vec![NONE; b.e.len()],
        trail_n: vec![],
        trail_e: vec![],
        steps: 0,
        budget,
    };
    for p in 0..a.s.len() {
        if !st.assign_node(a.s[p], b.s[p]) {
            return (Iso::No(format!("source interface position {}", p)), st.steps);
        }
    }
    for p in 0..a.t.len() {
        if !st.assign_node(a.t[p], b.t[p]) {
            return (Iso::No(format!("target interface position {}", p)), st.steps);
        }
    }
    let r = st.search();
    let steps = st.steps;
    match r {
        Some(true) => (Iso::Yes, steps),
        Some(false) => (Iso::No("no structure-preserving bijection".into()), steps),
        None => (Iso::Budget, steps),
    }
}

/// Self test used at the start of every run that relies on `iso`: random relabellings must be
/// accepted, single-point perturbations rejected. Returns Err(description) on failure.
pub fn self_test(seed: u64) -> Result<u64, String> {
    use crate::gen;
    use crate::rng::Rng;
    let mut n = 0u64;
    for case in 0..300u64 {
        let mut r = Rng::for_case(seed, "iso-selftest", case);
        let mut p = gen::oh(&mut r, &gen::OhParams::small());
        if case % 2 == 0 {
            gen::uniquify_edge_labels(&mut p);
        }
        let np = r.perm(p.w.len());
        let eo = r.perm(p.e.len());
        let q = p.renumber(&np, &eo);
        if iso(&p, &q) != Iso::Yes {
            return Err(format!("relabelling rejected: {:?} vs {:?}", p, q));
        }
        n += 1;
        // perturbations that provably change the isomorphism class
        // 1. change one edge label to a fresh one
        if !p.e.is_empty() {
            let mut q2 = q.clone();
            let k = r.below(q2.e.len());
            q2.e[k].l = 9_999_999;
            if iso(&p, &q2) == Iso::Yes {
                return Err(format!("edge relabel accepted: {:?} vs {:?}", p, q2));
            }
            n += 1;
        }
        // 2. change one node label to a fresh one
        if !p.w.is_empty() {
            let mut q2 = q.clone();
            let k = r.below(q2.w.len());
            q2.w[k] = 9_999;
            if iso(&p, &q2) == Iso::Yes {
                return Err(format!("node relabel accepted: {:?} vs {:?}", p, q2));
            }
            n += 1;
        }
        // 3. with unique edge labels and all-distinct node labels the diagram is rigid:
        //    moving one incidence or interface entry to a different node must be detected
        if case % 2 == 0 && p.w.len() >= 2 {
            let mut pr = p.clone();
            for (i, l) in pr.w.iter_mut().enumerate() {
                *l = 100 + i as u32;
            }
            let qr = pr.renumber(&np, &eo);
            if iso(&pr, &qr) != Iso::Yes {
                return Err("rigid relabelling rejected".into());
            }
            let mut q2 = qr.clone();
            let mut changed = false;
            let which = r.below(3);
            if which == 0 && !q2.s.is_empty() {
                let k = r.below(q2.s.len());
                q2.s[k] = (q2.s[k] + 1) % q2.w.len();
                changed = true;
            } else if which == 1 && !q2.t.is_empty() {
                let k = r.below(q2.t.len());
                q2.t[k] = (q2.t[k] + 1) % q2.w.len();
                changed = true;
            } else {
                for e in q2.e.iter_mut() {
                    if !e.s.is_empty() {
                        let k = r.below(e.s.len());
                        e.s[k] = (e.s[k] + 1) % qr.w.len();
                        changed = true;
                        break;
                    } else if !e.t.is_empty() {
                        let k = r.below(e.t.len());
                        e.t[k] = (e.t[k] + 1) % qr.w.len();
                        changed = true;
                        break;
                    }
                }
            }
            if changed {
                if iso(&pr, &q2) == Iso::Yes {
                    return Err(format!("moved incidence accepted: {:?} vs {:?}", pr, q2));
                }
                n += 1;
            }
            // 4. swap two source positions of an edge whose sources are distinct nodes
            let mut q3 = qr.clone();
            let mut swapped = false;
            for e in q3.e.iter_mut() {
                if e.s.len() >= 2 && e.s[0] != e.s[1] {
                    e.s.swap(0, 1);
                    swapped = true;
                    break;
                }
            }
            if swapped {
                if iso(&pr, &q3) == Iso::Yes {
                    return Err("swapped sources accepted".into());
                }
                n += 1;
            }
        }
    }
    Ok(n)
}
