//! Optic families for C14 (and C20): a structural family with arbitrary object / residual list
//! lengths, and the standard reverse-derivative lenses of a polynomial-circuit theory.
//! Also the model lens construction and an independent reverse-mode derivative.

use crate::conv::*;
use crate::model::*;
use crate::rng::Rng;
use open_hypergraphs::array::vec::VecKind;
use open_hypergraphs::lax;
use open_hypergraphs::operations::Operations;
use open_hypergraphs::strict::functor::optic::Optic;
use open_hypergraphs::strict::functor::{define_map_arrow, Functor};

pub const ADD: u64 = 1;
pub const MUL: u64 = 2;
pub const NEG: u64 = 3;
pub const COPY: u64 = 4;
pub const DISCARD: u64 = 5;
pub const ZERO: u64 = 6;
pub const CONST0: u64 = 1000; // CONST0 + c = constant c

#[derive(Clone, Debug, Hash, PartialEq, Eq)]
pub enum OSpec {
    /// object o: |F(o)| = flen[o % 2], |R(o)| = rlen[o % 2]; operation l: |M| = mlen[l % 3]
    Structural { flen: [usize; 2], rlen: [usize; 2], mlen: [usize; 3] },
    /// single object 0, F = R = identity on objects, standard reverse-derivative lenses
    Poly,
}

pub type PD = POh<u32, u64>;

fn e(l: u64, s: &[usize], t: &[usize]) -> PEdge<u64> {
    PEdge { l, s: s.to_vec(), t: t.to_vec() }
}

impl OSpec {
    pub fn random_structural(r: &mut Rng) -> OSpec {
        match r.below(5) {
            0 => OSpec::Structural { flen: [1, 1], rlen: [1, 1], mlen: [0, 0, 0] },
            1 => OSpec::Structural { flen: [1, 1], rlen: [1, 1], mlen: [1, 2, 0] },
            _ => OSpec::Structural { flen: [r.below(3), r.below(3)], rlen: [r.below(3), r.below(3)], mlen: [r.below(3), r.below(3), r.below(3)] },
        }
    }
    pub fn fobj(&self, o: &u32) -> Vec<u32> {
        match self {
            OSpec::Structural { flen, .. } => (0..flen[(*o % 2) as usize]).map(|j| 1000 + 10 * *o + j as u32).collect(),
            OSpec::Poly => vec![0],
        }
    }
    pub fn robj(&self, o: &u32) -> Vec<u32> {
        match self {
            OSpec::Structural { rlen, .. } => (0..rlen[(*o % 2) as usize]).map(|j| 2000 + 10 * *o + j as u32).collect(),
            OSpec::Poly => vec![0],
        }
    }
    pub fn residual(&self, l: &u64) -> Vec<u32> {
        match self {
            OSpec::Structural { mlen, .. } => (0..mlen[(*l % 3) as usize]).map(|j| 5000 + 10 * (*l as u32 % 400) + j as u32).collect(),
            OSpec::Poly => if *l == MUL { vec![0, 0] } else { vec![] },
        }
    }
    pub fn fty(&self, a: &[u32]) -> Vec<u32> {
        a.iter().flat_map(|o| self.fobj(o)).collect()
    }
    pub fn rty(&self, a: &[u32]) -> Vec<u32> {
        a.iter().flat_map(|o| self.robj(o)).collect()
    }
    /// interleave(F A, R A): per generating object, F(o) then R(o)
    pub fn interleaved(&self, a: &[u32]) -> Vec<u32> {
        a.iter().flat_map(|o| { let mut v = self.fobj(o); v.extend(self.robj(o)); v }).collect()
    }
    /// forward image: F(A) -> F(B) ● M
    pub fn fwd(&self, l: &u64, st: &[u32], tt: &[u32]) -> PD {
        match self {
            OSpec::Structural { .. } => {
                let mut out = self.fty(tt);
                out.extend(self.residual(l));
                POh::singleton(100_000 + l, self.fty(st), out)
            }
            OSpec::Poly => match *l {
                MUL => POh {
                    // x y | x1 x2 y1 y2 z
                    w: vec![0; 7],
                    e: vec![e(COPY, &[0], &[2, 3]), e(COPY, &[1], &[4, 5]), e(MUL, &[2, 4], &[6])],
                    s: vec![0, 1],
                    t: vec![6, 3, 5],
                },
                _ => POh::singleton(*l, vec![0; st.len()], vec![0; tt.len()]),
            },
        }
    }
    /// reverse image: M ● R(B) -> R(A)
    pub fn rev(&self, l: &u64, st: &[u32], tt: &[u32]) -> PD {
        match self {
            OSpec::Structural { .. } => {
                let mut inp = self.residual(l);
                inp.extend(self.rty(tt));
                POh::singleton(200_000 + l, inp, self.rty(st))
            }
            OSpec::Poly => match *l {
                ADD => POh::singleton(COPY, vec![0], vec![0, 0]),
                MUL => POh {
                    // mx my dz | d1 d2 dx dy ; dx = d1*my, dy = d2*mx
                    w: vec![0; 7],
                    e: vec![e(COPY, &[2], &[3, 4]), e(MUL, &[3, 1], &[5]), e(MUL, &[4, 0], &[6])],
                    s: vec![0, 1, 2],
                    t: vec![5, 6],
                },
                NEG => POh::singleton(NEG, vec![0], vec![0]),
                COPY => POh::singleton(ADD, vec![0, 0], vec![0]),
                DISCARD => POh::singleton(ZERO, vec![], vec![0]),
                _ => POh::singleton(DISCARD, vec![0], vec![]), // constants: gradient is discarded
            },
        }
    }

    /// model lens of one operation: type interleave(F A, R A) -> interleave(F B, R B)
    pub fn lens(&self, l: &u64, st: &[u32], tt: &[u32]) -> PD {
        let pf = self.fwd(l, st, tt);
        let pr = self.rev(l, st, tt);
        let m = self.residual(l).len();
        let nf = pf.w.len();
        let mut g = pf.tensor(&pr);
        // residual wires: forward outputs after F(B) are identified with the reverse inputs before R(B)
        let fb = self.fty(tt).len();
        let pairs: Vec<(usize, usize)> = (0..m).map(|j| (pf.t[fb + j], nf + pr.s[j])).collect();
        // interfaces, interleaved per object
        let mut s = vec![];
        let (mut fi, mut ri) = (0, 0);
        for o in st {
            for _ in 0..self.fobj(o).len() {
                s.push(pf.s[fi]);
                fi += 1;
            }
            for _ in 0..self.robj(o).len() {
                s.push(nf + pr.t[ri]);
                ri += 1;
            }
        }
        let mut t = vec![];
        let (mut fi, mut ri) = (0, 0);
        for o in tt {
            for _ in 0..self.fobj(o).len() {
                t.push(pf.t[fi]);
                fi += 1;
            }
            for _ in 0..self.robj(o).len() {
                t.push(nf + pr.s[m + ri]);
                ri += 1;
            }
        }
        g.s = s;
        g.t = t;
        quotient_oh(&g, &pairs).expect("residual labels agree").0
    }

    /// model optic image of a diagram
    pub fn optic(&self, f: &PD) -> Result<PD, SubstErr> {
        substitute(f, &|o| { let mut v = self.fobj(o); v.extend(self.robj(o)); v }, &|l, s, t| self.lens(l, s, t)).map(|s| s.result)
    }

    /// model adaptation of an optic image c : interleave(FA,RA) -> interleave(FB,RB)
    /// to F A ● R B -> F B ● R A (same hypergraph, interfaces re-bent)
    pub fn adapt(&self, c: &PD, a: &[u32], b: &[u32]) -> PD {
        let split = |iface: &Vec<usize>, ty: &[u32]| -> (Vec<usize>, Vec<usize>) {
            let (mut f, mut r) = (vec![], vec![]);
            let mut at = 0;
            for o in ty {
                for _ in 0..self.fobj(o).len() {
                    f.push(iface[at]);
                    at += 1;
                }
                for _ in 0..self.robj(o).len() {
                    r.push(iface[at]);
                    at += 1;
                }
            }
            (f, r)
        };
        let (fa, ra) = split(&c.s, a);
        let (fb, rb) = split(&c.t, b);
        let mut s = fa;
        s.extend(rb);
        let mut t = fb;
        t.extend(ra);
        POh { w: c.w.clone(), e: c.e.clone(), s, t }
    }
}

/// forward or reverse part as a strict functor (never used through map_arrow by the optic)
pub struct Part {
    pub spec: OSpec,
    pub rev: bool,
}

impl Functor<VecKind, u32, u64, u32, u64> for Part {
    fn map_object(&self, a: &SF<u32>) -> SegS<u32> {
        let lists: Vec<Vec<u32>> = a.0 .0.iter().map(|o| if self.rev { self.spec.robj(o) } else { self.spec.fobj(o) }).collect();
        segs_from_lists(&lists)
    }
    fn map_operations(&self, ops: Operations<VecKind, u32, u64>) -> SOh<u32, u64> {
        let mut acc: PD = POh::empty();
        for (l, s, t) in ops.iter() {
            acc = acc.tensor(&if self.rev { self.spec.rev(l, s, t) } else { self.spec.fwd(l, s, t) });
        }
        to_strict(&acc)
    }
    fn map_arrow(&self, f: &SOh<u32, u64>) -> SOh<u32, u64> {
        define_map_arrow(self, f)
    }
}

pub type StrictOptic = Optic<Part, Part, VecKind, u32, u64, u32, u64>;

pub fn strict_optic(spec: &OSpec) -> StrictOptic {
    let s2 = spec.clone();
    Optic::new(
        Part { spec: spec.clone(), rev: false },
        Part { spec: spec.clone(), rev: true },
        Box::new(move |ops: &Operations<VecKind, u32, u64>| {
            let lists: Vec<Vec<u32>> = ops.iter().map(|(l, _, _)| s2.residual(l)).collect();
            segs_from_lists(&lists)
        }),
    )
}

/// the same optic through the lax trait
#[derive(Clone)]
pub struct LaxOptic(pub OSpec);

impl lax::optic::Optic<u32, u64, u32, u64> for LaxOptic {
    fn fwd_object(&self, o: &u32) -> Vec<u32> {
        self.0.fobj(o)
    }
    fn fwd_operation(&self, a: &u64, source: &[u32], target: &[u32]) -> LOh<u32, u64> {
        // composite images (and every other structural image) are handed over the way a user
        // builds them with new_operation + unify: with pending unifications
        let p = self.0.fwd(a, source, target);
        if p.e.len() > 1 || *a % 2 == 1 { to_lax(&explode_shuffled(&p)) } else { to_lax(&p.to_lax()) }
    }
    fn rev_object(&self, o: &u32) -> Vec<u32> {
        self.0.robj(o)
    }
    fn rev_operation(&self, a: &u64, source: &[u32], target: &[u32]) -> LOh<u32, u64> {
        let p = self.0.rev(a, source, target);
        if p.e.len() > 1 || *a % 2 == 0 { to_lax(&explode_shuffled(&p)) } else { to_lax(&p.to_lax()) }
    }
    fn residual(&self, a: &u64) -> Vec<u32> {
        self.0.residual(a)
    }
}

// ---------------------------------------------------------------------------------------------
// polynomial circuits over Z/2^64

pub fn poly_apply(l: &u64, x: &[u64], nout: usize) -> Vec<u64> {
    match (*l, x.len()) {
        (ADD, 2) => vec![x[0].wrapping_add(x[1])],
        (MUL, 2) => vec![x[0].wrapping_mul(x[1])],
        (NEG, 1) => vec![x[0].wrapping_neg()],
        (COPY, 1) => vec![x[0]; nout],
        (DISCARD, 1) => vec![],
        (ZERO, 0) => vec![0],
        (c, 0) if c >= CONST0 => vec![c - CONST0],
        _ => vec![0xDEAD_BEEF; nout], // never reached for well-formed circuits
    }
}

/// random monogamous acyclic circuit over {add, mul, neg, copy, discard, constants}
pub fn poly_circuit(r: &mut Rng, max_inputs: usize, max_ops: usize) -> PD {
    let mut w: Vec<u32> = vec![];
    let mut s = vec![];
    let mut avail: Vec<usize> = vec![];
    for _ in 0..r.small(max_inputs) {
        w.push(0);
        s.push(w.len() - 1);
        avail.push(w.len() - 1);
    }
    let mut edges = vec![];
    for _ in 0..r.small(max_ops) {
        let cands: Vec<u64> = [ADD, MUL, MUL, NEG, COPY, COPY, DISCARD, ZERO, CONST0]
            .iter()
            .cloned()
            .filter(|&l| match l { ADD | MUL => avail.len() >= 2, NEG | COPY | DISCARD => !avail.is_empty(), _ => true })
            .collect();
        let mut l = *r.pick(&cands);
        let (a, b) = match l { ADD | MUL => (2, 1), NEG => (1, 1), COPY => (1, 2), DISCARD => (1, 0), _ => (0, 1) };
        if l == CONST0 {
            l = CONST0 + r.below(7) as u64;
        }
        let mut src = vec![];
        for _ in 0..a {
            let k = r.below(avail.len());
            src.push(avail.swap_remove(k));
        }
        let mut tgt = vec![];
        for _ in 0..b {
            w.push(0);
            tgt.push(w.len() - 1);
            avail.push(w.len() - 1);
        }
        edges.push(PEdge { l, s: src, t: tgt });
    }
    r.shuffle(&mut avail);
    let p = POh { w, e: edges, s, t: avail };
    let np = r.perm(p.w.len());
    let eo = r.perm(p.e.len());
    p.renumber(&np, &eo)
}

/// independent reverse-mode sweep: returns (f(x), J_f(x)^T dy)
pub fn reverse_mode(p: &PD, x: &[u64], dy: &[u64]) -> Option<(Vec<u64>, Vec<u64>)> {
    let re = ref_eval(p, x, &|l, xs| {
        let nout = match *l { COPY => 2, DISCARD => 0, _ => 1 };
        poly_apply(l, xs, nout)
    });
    let out = re.out.clone()?;
    // node values
    let mut val = vec![0u64; p.w.len()];
    for (k, &v) in p.s.iter().enumerate() {
        val[v] = x[k];
    }
    for &y in &re.order {
        let ed = &p.e[y];
        let nout = ed.t.len();
        let o = poly_apply(&ed.l, &re.inputs[y], nout);
        for (k, &v) in ed.t.iter().enumerate() {
            val[v] = o[k];
        }
    }
    let mut adj = vec![0u64; p.w.len()];
    for (k, &v) in p.t.iter().enumerate() {
        adj[v] = adj[v].wrapping_add(dy[k]);
    }
    for &y in re.order.iter().rev() {
        let ed = &p.e[y];
        match ed.l {
            ADD => {
                let d = adj[ed.t[0]];
                adj[ed.s[0]] = adj[ed.s[0]].wrapping_add(d);
                adj[ed.s[1]] = adj[ed.s[1]].wrapping_add(d);
            }
            MUL => {
                let d = adj[ed.t[0]];
                let (a, b) = (val[ed.s[0]], val[ed.s[1]]);
                adj[ed.s[0]] = adj[ed.s[0]].wrapping_add(d.wrapping_mul(b));
                adj[ed.s[1]] = adj[ed.s[1]].wrapping_add(d.wrapping_mul(a));
            }
            NEG => {
                let d = adj[ed.t[0]];
                adj[ed.s[0]] = adj[ed.s[0]].wrapping_add(d.wrapping_neg());
            }
            COPY => {
                let d = adj[ed.t[0]].wrapping_add(adj[ed.t[1]]);
                adj[ed.s[0]] = adj[ed.s[0]].wrapping_add(d);
            }
            _ => {}
        }
    }
    Some((out, p.s.iter().map(|&v| adj[v]).collect()))
}
