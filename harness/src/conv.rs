//! Conversions between library values (Vec backend) and the plain model. Reads raw public fields
//! only; the only library code involved is the checked constructor of `IndexedCoproduct` (the
//! struct is `#[non_exhaustive]`), and its result is re-read and compared field by field.

use crate::model::*;
use open_hypergraphs::array::vec::{VecArray, VecKind};
use open_hypergraphs::finite_function::FiniteFunction;
use open_hypergraphs::indexed_coproduct::IndexedCoproduct;
use open_hypergraphs::lax;
use open_hypergraphs::semifinite::SemifiniteFunction;
use open_hypergraphs::strict::hypergraph::Hypergraph;
use open_hypergraphs::strict::open_hypergraph::OpenHypergraph;

pub type FF = FiniteFunction<VecKind>;
pub type SF<T> = SemifiniteFunction<VecKind, T>;
pub type Seg = IndexedCoproduct<VecKind, FiniteFunction<VecKind>>;
pub type SegS<T> = IndexedCoproduct<VecKind, SemifiniteFunction<VecKind, T>>;
pub type SOh<O, A> = OpenHypergraph<VecKind, O, A>;
pub type SHg<O, A> = Hypergraph<VecKind, O, A>;
pub type LOh<O, A> = lax::OpenHypergraph<O, A>;

pub fn ff(table: Vec<usize>, target: usize) -> FF {
    FiniteFunction { table: VecArray(table), target }
}

pub fn sf<T>(v: Vec<T>) -> SF<T> {
    SemifiniteFunction(VecArray(v))
}

/// segmented array of finite functions from a list of lists
pub fn seg_from_lists(lists: &[Vec<usize>], target: usize) -> Seg {
    let sizes: Vec<usize> = lists.iter().map(|l| l.len()).collect();
    let values: Vec<usize> = lists.iter().flat_map(|l| l.iter().cloned()).collect();
    let total = values.len();
    IndexedCoproduct::new(ff(sizes, total + 1), ff(values, target))
        .expect("harness: well-formed segmented array rejected by IndexedCoproduct::new")
}

pub fn segs_from_lists<T: Clone>(lists: &[Vec<T>]) -> SegS<T> {
    let sizes: Vec<usize> = lists.iter().map(|l| l.len()).collect();
    let values: Vec<T> = lists.iter().flat_map(|l| l.iter().cloned()).collect();
    let total = values.len();
    IndexedCoproduct::new(ff(sizes, total + 1), sf(values))
        .expect("harness: well-formed segmented array rejected by IndexedCoproduct::new")
}

/// decode a segmented array of finite functions by explicit loops; Err on a broken size invariant
pub fn seg_to_lists(s: &Seg) -> Result<Vec<Vec<usize>>, String> {
    decode(&s.sources.table.0, s.sources.target, &s.values.table.0)
}

pub fn segs_to_lists<T: Clone>(s: &SegS<T>) -> Result<Vec<Vec<T>>, String> {
    decode(&s.sources.table.0, s.sources.target, &s.values.0 .0)
}

pub fn decode<T: Clone>(sizes: &[usize], sizes_target: usize, values: &[T]) -> Result<Vec<Vec<T>>, String> {
    let mut total = 0usize;
    for &k in sizes {
        total = total.checked_add(k).ok_or("size overflow")?;
    }
    if total != values.len() {
        return Err(format!("sum of sizes {} != number of values {}", total, values.len()));
    }
    if sizes_target != total + 1 {
        return Err(format!("codomain of sizes {} != sum+1 = {}", sizes_target, total + 1));
    }
    let mut out = vec![];
    let mut at = 0;
    for &k in sizes {
        out.push(values[at..at + k].to_vec());
        at += k;
    }
    Ok(out)
}

pub fn to_strict<O: Clone, A: Clone>(p: &POh<O, A>) -> SOh<O, A> {
    let n = p.w.len();
    let sl: Vec<Vec<usize>> = p.e.iter().map(|e| e.s.clone()).collect();
    let tl: Vec<Vec<usize>> = p.e.iter().map(|e| e.t.clone()).collect();
    let h = Hypergraph {
        s: seg_from_lists(&sl, n),
        t: seg_from_lists(&tl, n),
        w: sf(p.w.clone()),
        x: sf(p.e.iter().map(|e| e.l.clone()).collect()),
    };
    OpenHypergraph { s: ff(p.s.clone(), n), t: ff(p.t.clone(), n), h }
}

/// Deep well-formedness of a strict open hypergraph, by reading raw fields.
pub fn wf_strict<O, A>(f: &SOh<O, A>) -> Vec<String> {
    let mut errs = vec![];
    let n = f.h.w.0 .0.len();
    let m = f.h.x.0 .0.len();
    for (name, seg) in [("s", &f.h.s), ("t", &f.h.t)] {
        let sizes = &seg.sources.table.0;
        if sizes.len() != m {
            errs.push(format!("h.{}: {} segments for {} hyperedges", name, sizes.len(), m));
        }
        let total: usize = sizes.iter().sum();
        if total != seg.values.table.0.len() {
            errs.push(format!("h.{}: sizes sum to {} but {} values", name, total, seg.values.table.0.len()));
        }
        if seg.sources.target != total + 1 {
            errs.push(format!("h.{}: sizes codomain {} != sum+1 {}", name, seg.sources.target, total + 1));
        }
        if seg.values.target != n {
            errs.push(format!("h.{}: incidence codomain {} != node count {}", name, seg.values.target, n));
        }
        if let Some(&v) = seg.values.table.0.iter().find(|&&v| v >= n) {
            errs.push(format!("h.{}: incidence value {} out of range (n={})", name, v, n));
        }
    }
    for (name, leg) in [("s", &f.s), ("t", &f.t)] {
        if leg.target != n {
            errs.push(format!("{}: interface codomain {} != node count {}", name, leg.target, n));
        }
        if let Some(&v) = leg.table.0.iter().find(|&&v| v >= n) {
            errs.push(format!("{}: interface entry {} out of range (n={})", name, v, n));
        }
    }
    errs
}

pub fn from_strict<O: Clone, A: Clone>(f: &SOh<O, A>) -> Result<POh<O, A>, String> {
    let errs = wf_strict(f);
    if !errs.is_empty() {
        return Err(errs.join("; "));
    }
    let sl = seg_to_lists(&f.h.s)?;
    let tl = seg_to_lists(&f.h.t)?;
    let e = f
        .h
        .x
        .0
         .0
        .iter()
        .enumerate()
        .map(|(k, l)| PEdge { l: l.clone(), s: sl[k].clone(), t: tl[k].clone() })
        .collect();
    Ok(POh { w: f.h.w.0 .0.clone(), e, s: f.s.table.0.clone(), t: f.t.table.0.clone() })
}

pub fn to_lax<O: Clone, A: Clone>(p: &PLax<O, A>) -> LOh<O, A> {
    lax::OpenHypergraph {
        sources: p.s.iter().map(|&i| lax::NodeId(i)).collect(),
        targets: p.t.iter().map(|&i| lax::NodeId(i)).collect(),
        hypergraph: lax::Hypergraph {
            nodes: p.w.clone(),
            edges: p.e.iter().map(|e| e.l.clone()).collect(),
            adjacency: p
                .e
                .iter()
                .map(|e| lax::Hyperedge {
                    sources: e.s.iter().map(|&i| lax::NodeId(i)).collect(),
                    targets: e.t.iter().map(|&i| lax::NodeId(i)).collect(),
                })
                .collect(),
            quotient: (
                p.q.iter().map(|&(a, _)| lax::NodeId(a)).collect(),
                p.q.iter().map(|&(_, b)| lax::NodeId(b)).collect(),
            ),
        },
    }
}

pub fn wf_lax<O, A>(f: &LOh<O, A>) -> Vec<String> {
    let mut errs = vec![];
    let h = &f.hypergraph;
    let n = h.nodes.len();
    if h.edges.len() != h.adjacency.len() {
        errs.push(format!("{} edge labels but {} adjacency entries", h.edges.len(), h.adjacency.len()));
    }
    for (k, e) in h.adjacency.iter().enumerate() {
        if e.sources.iter().chain(e.targets.iter()).any(|v| v.0 >= n) {
            errs.push(format!("edge {} has an incidence out of range (n={})", k, n));
        }
    }
    if f.sources.iter().chain(f.targets.iter()).any(|v| v.0 >= n) {
        errs.push(format!("interface entry out of range (n={})", n));
    }
    if h.quotient.0.len() != h.quotient.1.len() {
        errs.push("quotient halves of different length".into());
    }
    if h.quotient.0.iter().chain(h.quotient.1.iter()).any(|v| v.0 >= n) {
        errs.push(format!("quotient entry out of range (n={})", n));
    }
    errs
}

pub fn from_lax<O: Clone, A: Clone>(f: &LOh<O, A>) -> Result<PLax<O, A>, String> {
    let errs = wf_lax(f);
    if !errs.is_empty() {
        return Err(errs.join("; "));
    }
    Ok(from_lax_raw(f))
}

/// copy of all public fields without any well-formedness requirement (edge labels and adjacency
/// are zipped; a length mismatch there is reported by `wf_lax`)
pub fn from_lax_raw<O: Clone, A: Clone>(f: &LOh<O, A>) -> PLax<O, A> {
    let h = &f.hypergraph;
    PLax {
        w: h.nodes.clone(),
        e: h
            .edges
            .iter()
            .zip(h.adjacency.iter())
            .map(|(l, a)| PEdge {
                l: l.clone(),
                s: a.sources.iter().map(|v| v.0).collect(),
                t: a.targets.iter().map(|v| v.0).collect(),
            })
            .collect(),
        s: f.sources.iter().map(|v| v.0).collect(),
        t: f.targets.iter().map(|v| v.0).collect(),
        q: h.quotient.0.iter().zip(h.quotient.1.iter()).map(|(a, b)| (a.0, b.0)).collect(),
    }
}

/// lengths of the public vectors of a lax diagram: nodes, edge labels, adjacency entries, and the
/// two halves of the pending-unification list (the raw copy above zips two of these pairs)
pub fn lax_lens<O, A>(f: &LOh<O, A>) -> [usize; 5] {
    let h = &f.hypergraph;
    [h.nodes.len(), h.edges.len(), h.adjacency.len(), h.quotient.0.len(), h.quotient.1.len()]
}

pub fn plax_lens<O, A>(p: &PLax<O, A>) -> [usize; 5] {
    [p.w.len(), p.e.len(), p.e.len(), p.q.len(), p.q.len()]
}
