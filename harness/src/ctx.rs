//! Monitoring context: event counters, oracle decisions, violations, samples, panic capture.

use serde_json::{json, Value};
use std::cell::RefCell;
use std::collections::hash_map::DefaultHasher;
use std::collections::{BTreeMap, HashSet};
use std::hash::{Hash, Hasher};
use std::panic::{catch_unwind, AssertUnwindSafe};
use std::sync::atomic::{AtomicU64, Ordering};

#[derive(Debug, Clone)]
pub struct PanicInfo {
    pub msg: String,
    pub file: String,
    pub line: u32,
}

impl PanicInfo {
    /// stable part used in violation signatures: file (no line) + normalised message head
    pub fn sig(&self) -> String {
        let file = self.file.trim_start_matches("/repo/").to_string();
        let mut m: String = self
            .msg
            .chars()
            .take(48)
            .map(|c| if c.is_ascii_digit() { '#' } else { c })
            .collect();
        m = m.replace(' ', "_").replace('/', "|");
        // collapse runs of '#'
        while m.contains("##") {
            m = m.replace("##", "#");
        }
        format!("panic@{}:{}", file, m)
    }
    pub fn in_library(&self) -> bool {
        self.file.starts_with("/repo/")
    }
    /// raised by the harness's own code (its sources are compiled under the relative path `src/`)
    pub fn in_harness(&self) -> bool {
        // (not the adversarial array backend: its assertions fire when the *library* hands it arguments outside
        // the array contract, which is the library's doing)
        (self.file.starts_with("src/") && !self.file.starts_with("src/adv.rs")) || self.file.starts_with("/verif/") || self.file.starts_with("<harness>")
    }
    pub fn json(&self) -> Value {
        json!({"panic": self.msg, "at": format!("{}:{}", self.file, self.line)})
    }
}

thread_local! {
    static LAST_PANIC: RefCell<Option<PanicInfo>> = const { RefCell::new(None) };
}

pub fn install_panic_hook() {
    std::panic::set_hook(Box::new(|info| {
        let msg = if let Some(s) = info.payload().downcast_ref::<&str>() {
            s.to_string()
        } else if let Some(s) = info.payload().downcast_ref::<String>() {
            s.clone()
        } else {
            "<non-string panic payload>".to_string()
        };
        let (file, line) = info
            .location()
            .map(|l| (l.file().to_string(), l.line()))
            .unwrap_or(("<unknown>".into(), 0));
        LAST_PANIC.with(|p| *p.borrow_mut() = Some(PanicInfo { msg, file, line }));
    }));
}

/// Run a library call; a panic is a recorded outcome.
pub fn guard<T>(f: impl FnOnce() -> T) -> Result<T, PanicInfo> {
    LAST_PANIC.with(|p| *p.borrow_mut() = None);
    match catch_unwind(AssertUnwindSafe(f)) {
        Ok(v) => Ok(v),
        Err(_) => Err(LAST_PANIC.with(|p| p.borrow_mut().take()).unwrap_or(PanicInfo {
            msg: "<panic without hook info>".into(),
            file: "<unknown>".into(),
            line: 0,
        })),
    }
}

pub static CASE_START_MS: AtomicU64 = AtomicU64::new(0);
pub static CASE_IDX: AtomicU64 = AtomicU64::new(u64::MAX);

pub fn hash_of<T: Hash>(x: &T) -> u64 {
    let mut h = DefaultHasher::new();
    x.hash(&mut h);
    h.finish()
}

pub struct Ctx {
    pub prop: String,
    pub profile: String,
    pub seed: u64,
    pub thorough: bool,
    pub verbose: bool,
    pub case: u64,
    pub cases: u64,
    pub evaluations: u64,
    pub distinct: HashSet<u64>,
    pub counters: BTreeMap<String, u64>,
    pub samples: Vec<Value>,
    sample_classes: BTreeMap<String, u32>,
    pub violations: Vec<Value>,
    pub viol_sigs: BTreeMap<String, u64>,
    pub incon: BTreeMap<String, u64>,
    pub maxima: BTreeMap<String, u64>,
}

impl Ctx {
    pub fn new(prop: &str, profile: &str, seed: u64, thorough: bool) -> Ctx {
        Ctx {
            prop: prop.into(),
            profile: profile.into(),
            seed,
            thorough,
            verbose: false,
            case: 0,
            cases: 0,
            evaluations: 0,
            distinct: HashSet::new(),
            counters: BTreeMap::new(),
            samples: vec![],
            sample_classes: BTreeMap::new(),
            violations: vec![],
            viol_sigs: BTreeMap::new(),
            incon: BTreeMap::new(),
            maxima: BTreeMap::new(),
        }
    }

    pub fn count(&mut self, key: &str) {
        *self.counters.entry(key.to_string()).or_insert(0) += 1;
    }
    pub fn count_n(&mut self, key: &str, n: u64) {
        *self.counters.entry(key.to_string()).or_insert(0) += n;
    }
    pub fn api(&mut self, name: &str) {
        self.count(&format!("api:{}", name));
    }
    pub fn class(&mut self, name: &str) {
        self.count(&format!("class:{}", name));
    }
    pub fn outcome(&mut self, name: &str) {
        self.count(&format!("outcome:{}", name));
    }
    pub fn max(&mut self, key: &str, v: u64) {
        let e = self.maxima.entry(key.to_string()).or_insert(0);
        if v > *e {
            *e = v;
        }
    }

    /// record that this case is non-trivial by the monitor's rule; `key` = canonical input
    pub fn nontrivial<T: Hash>(&mut self, key: &T) {
        self.distinct.insert(hash_of(key));
    }

    /// keep up to `per_class` samples for each class
    pub fn sample(&mut self, class: &str, v: impl FnOnce() -> Value) {
        let c = self.sample_classes.entry(class.to_string()).or_insert(0);
        if *c < 1 && self.samples.len() < 40 {
            *c += 1;
            let mut val = v();
            if let Value::Object(m) = &mut val {
                m.insert("class".into(), json!(class));
                m.insert("case".into(), json!(self.case));
            }
            self.samples.push(val);
        }
    }

    /// one oracle decision
    pub fn check(&mut self, ok: bool, sig: &str, detail: impl FnOnce() -> Value) -> bool {
        self.evaluations += 1;
        if !ok {
            self.violation(sig, detail());
        }
        ok
    }

    pub fn violation(&mut self, sig: &str, detail: Value) {
        let full = format!("{}/{}", self.prop, sig);
        let n = self.viol_sigs.entry(full.clone()).or_insert(0);
        *n += 1;
        if *n <= 3 && self.violations.len() < 200 {
            self.violations.push(json!({
                "sig": full,
                "case": self.case,
                "profile": self.profile,
                "seed": self.seed,
                "detail": detail,
            }));
        }
        if self.verbose {
            eprintln!("VIOLATION-DETAIL sig={} case={}", full, self.case);
        }
    }

    pub fn inconclusive(&mut self, reason: &str) {
        *self.incon.entry(reason.to_string()).or_insert(0) += 1;
    }

    pub fn report(&self) -> Value {
        json!({
            "prop": self.prop,
            "profile": self.profile,
            "seed": self.seed,
            "cases": self.cases,
            "evaluations": self.evaluations,
            "distinct": self.distinct.len(),
            "counters": self.counters,
            "maxima": self.maxima,
            "samples": self.samples,
            "violations": self.violations,
            "viol_sigs": self.viol_sigs,
            "incon": self.incon,
        })
    }
}

/// Helper: uniform handling of "call must return a value" outcomes.
/// Returns Some(value) when the call returned; records a violation when it panicked.
pub fn must_return<T>(
    ctx: &mut Ctx,
    api: &str,
    class: &str,
    r: Result<T, PanicInfo>,
    input: impl FnOnce() -> Value,
) -> Option<T> {
    ctx.api(api);
    match r {
        Ok(v) => {
            ctx.evaluations += 1;
            Some(v)
        }
        Err(p) if p.in_harness() => {
            // a panic of harness code that ran inside the guarded closure (a conversion helper, a callback of a
            // test functor): a harness error, never a verdict on the library
            ctx.inconclusive(&format!("harness panic inside a guarded call to {}: {} at {}:{}", api, p.msg, p.file, p.line));
            None
        }
        Err(p) => {
            ctx.evaluations += 1;
            ctx.outcome("panic");
            let sig = format!("{}/returns/{}/{}", api, p.sig(), class);
            ctx.violation(&sig, json!({"input": input(), "observed": p.json(), "expected": "the call returns"}));
            None
        }
    }
}

/// Run a library call on a fresh thread with the stack a spawned Rust thread gets by default (2 MiB) -- the
/// situation of a caller that is not on the main thread. A panic is a recorded outcome as with `guard`; a
/// stack overflow aborts the process (the driver confirms it on the single case and reports it).
pub fn on_thread_stack<T: Send>(f: impl FnOnce() -> T + Send) -> Result<T, PanicInfo> {
    if cfg!(miri) {
        return guard(f);
    }
    std::thread::scope(|sc| {
        let h = std::thread::Builder::new().stack_size(2 << 20).spawn_scoped(sc, move || guard(f));
        match h {
            Ok(h) => h.join().unwrap_or_else(|_| Err(PanicInfo { msg: "<panic escaped the worker thread>".into(), file: "<unknown>".into(), line: 0 })),
            Err(e) => Err(PanicInfo { msg: format!("could not spawn worker thread: {}", e), file: "<harness>".into(), line: 0 }),
        }
    })
}
