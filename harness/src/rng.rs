//! Deterministic SplitMix64 stream. Every case has its own stream derived from
//! (seed, monitor id, case index), so a single case can be replayed without running its
//! predecessors.

#[derive(Clone, Debug)]
pub struct Rng(pub u64);

pub fn mix(mut z: u64) -> u64 {
    z = z.wrapping_add(0x9E37_79B9_7F4A_7C15);
    z = (z ^ (z >> 30)).wrapping_mul(0xBF58_476D_1CE4_E5B9);
    z = (z ^ (z >> 27)).wrapping_mul(0x94D0_49BB_1331_11EB);
    z ^ (z >> 31)
}

pub fn hash_str(s: &str) -> u64 {
    let mut h: u64 = 0xcbf2_9ce4_8422_2325;
    for b in s.bytes() {
        h ^= b as u64;
        h = h.wrapping_mul(0x0000_0100_0000_01B3);
    }
    mix(h)
}

impl Rng {
    pub fn for_case(seed: u64, monitor: &str, case: u64) -> Rng {
        Rng(mix(mix(seed) ^ hash_str(monitor)) ^ mix(case.wrapping_mul(0xD1B5_4A32_D192_ED03)))
    }

    pub fn next(&mut self) -> u64 {
        self.0 = self.0.wrapping_add(0x9E37_79B9_7F4A_7C15);
        let mut z = self.0;
        z = (z ^ (z >> 30)).wrapping_mul(0xBF58_476D_1CE4_E5B9);
        z = (z ^ (z >> 27)).wrapping_mul(0x94D0_49BB_1331_11EB);
        z ^ (z >> 31)
    }

    /// uniform in 0..n (n > 0)
    pub fn below(&mut self, n: usize) -> usize {
        debug_assert!(n > 0);
        (self.next() % (n as u64)) as usize
    }

    /// uniform in lo..=hi
    pub fn range(&mut self, lo: usize, hi: usize) -> usize {
        lo + self.below(hi - lo + 1)
    }

    /// true with probability num/den
    pub fn chance(&mut self, num: u64, den: u64) -> bool {
        self.next() % den < num
    }

    pub fn pick<'a, T>(&mut self, xs: &'a [T]) -> &'a T {
        &xs[self.below(xs.len())]
    }

    pub fn shuffle<T>(&mut self, xs: &mut [T]) {
        for i in (1..xs.len()).rev() {
            let j = self.below(i + 1);
            xs.swap(i, j);
        }
    }

    pub fn perm(&mut self, n: usize) -> Vec<usize> {
        let mut p: Vec<usize> = (0..n).collect();
        self.shuffle(&mut p);
        p
    }

    /// size biased towards small values: 0..=max, roughly geometric
    pub fn small(&mut self, max: usize) -> usize {
        if max == 0 {
            return 0;
        }
        let a = self.below(max + 1);
        let b = self.below(max + 1);
        a.min(b)
    }

    pub fn vec_below(&mut self, len: usize, n: usize) -> Vec<usize> {
        (0..len).map(|_| self.below(n)).collect()
    }
}
