//! Probe the library's source for public items that the property statements do not mention (deprecated
//! aliases, one free helper function). The monitors drive them when they exist; if a maintainer removes
//! one, the harness must still build and the corresponding checks are simply not made.
use std::fs;
use std::path::Path;

fn read_all(dir: &Path, out: &mut String) {
    if let Ok(rd) = fs::read_dir(dir) {
        for e in rd.flatten() {
            let p = e.path();
            if p.is_dir() {
                read_all(&p, out);
            } else if p.extension().map_or(false, |x| x == "rs") {
                if let Ok(s) = fs::read_to_string(&p) {
                    out.push_str(&s);
                    out.push('\n');
                }
            }
        }
    }
}

fn main() {
    println!("cargo:rerun-if-changed=/repo/src");
    println!("cargo:rerun-if-changed=build.rs");
    let probes = [
        ("has_quotient_witness", "pub fn quotient_witness"),
        ("has_to_open_hypergraph", "pub fn to_open_hypergraph"),
        ("has_delete_edge_alias", "pub fn delete_edge("),
        ("has_to_dense", "pub fn to_dense("),
    ];
    let mut all = String::new();
    read_all(Path::new("/repo/src"), &mut all);
    for (cfg, needle) in probes {
        println!("cargo:rustc-check-cfg=cfg({})", cfg);
        if all.contains(needle) {
            println!("cargo:rustc-cfg={}", cfg);
        }
    }
    // the shim lives in one particular file
    println!("cargo:rustc-check-cfg=cfg(has_lax_functor_shim)");
    let shim = fs::read_to_string("/repo/src/lax/functor/mod.rs").unwrap_or_default();
    if shim.contains("pub fn define_map_arrow") {
        println!("cargo:rustc-cfg=has_lax_functor_shim");
    }
}
